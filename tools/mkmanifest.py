#!/usr/bin/env python3
"""Regenerate /verif/MANIFEST.json from the table below (kept in one place so it stays valid)."""
import json, os
V = os.path.dirname(os.path.dirname(os.path.abspath(__file__)))
props = [json.loads(l) for l in open(os.path.join(V, 'properties.jsonl'))]

SYMX_NOTE = ("Trusted base: z3 5.1.0; the symx proxies' str/int semantics, its regex compiler and its models of the C-level "
             "functions pvl calls (int, float, str(int), strptime, strftime, timedelta, str methods, textwrap is NOT "
             "stubbed) - every explored path is re-run on a concrete witness against a pristine copy of /repo's "
             "sources and any disagreement aborts the check (exit 3); every counterexample is replayed in a fresh "
             "interpreter without instrumentation before it is reported. Bounded: see evidence per_obligation.bounds.")

CHECKS = {
 'C01': dict(
   text="Bounded symbolic execution of the complete real pipeline encoder.encode -> lexer -> strict parser -> decoder "
        "of the same dialect (PVL, ODL, PDS3, ISIS) on modules of 20 fixed shapes (single/duplicate keys, groups, "
        "objects, nesting, PDS3 conversion cases incl. duplicate block names and invalid groups below the top level, "
        "sequences, nested sequences, sets, quantities, sequences of hash-equal elements of different types (1, 1.0, "
        "True), long sequences/strings that force line wrapping) with ONE symbolic leaf: every string of length "
        "0-2 (quick; 0-3 thorough; 'single' shape one longer) over the dialect's alphabet, an integer |i| <= 10^3/10^6, "
        "a quantity whose value is such a string, a finite float in positional repr form or of an exponent-form shape (both signs, magnitudes on both sides of the "
        "points where repr() switches notation), dates/times/datetimes with all fields symbolic, strings shaped like "
        "numbers and times, strings spelling each aggregation keyword of any grammar in every letter case; in the thorough tier also a module of 121 blocks and one nested 110 levels deep; 14 encoder configurations (indent, width incl. SYMBOLIC widths in [30,100] and in [1,14] - "
        "every statement longer than the line - running the stdlib textwrap on proxies, newline, end-name, delimiter, "
        "PDS3 options). Assertion: "
        "encode refuses with ValueError/TypeError, or the strict load equals the spec-side normalisation of the "
        "original (upper-cased parameter names, ODL-family white-space folding, naive->UTC, PDS3 GROUP->OBJECT rule, "
        "set vs frozenset). Outside: longer strings, more than one symbolic leaf, depth > 3, third-party quantities, "
        "parameter names longer than 3 characters (the name is dropped at small widths instead: D45).",
   ref='5 (C01)', technique='symbolic execution (symx) of encoder+lexer+parser+decoder on a symbolic leaf; z3 decides every branch; bounded'),
 'C02': dict(
   text="The C01 obligations with the reader replaced by pvl.loads(text) with no argument (OmniParser, OmniGrammar, "
        "OmniDecoder): the whole-document dash-continuation substitution runs on the symbolic text through the regex "
        "engine, '#' comments / NUL reserved / '+' unreserved / both sign positions / the empty-value repair hooks "
        "are real code on the path; additionally module.errors must be []. Oracle = C01's normalisation composed "
        "with the default loader's documented ones (folding of quoted strings, dash + line end + following white "
        "space removed, naive -> UTC). Same bounds as C01; the 121-block and the 110-level shapes run in the quick tier too.",
   ref='5 (C02)', technique='symbolic execution (symx) of encoder + default loader on a symbolic leaf; z3; bounded'),
 'C03': dict(
   text="Bounded symbolic execution of the real lexer, parser and decoders on spelling templates with symbolic parts, "
        "the expected tree computed by the harness from the abstract value (never by the encoder): based integers "
        "(PVL radix 2/8/16 with the sign before the radix; ODL/PDS3 radix 2-16 with the sign after the first '#'; the "
        "default loader both positions) with 1-3 (quick) / 1-5 symbolic digits of the radix incl. both letter cases, "
        "value = positional sum in linear integer arithmetic; decimal integers and reals of 9-12 shapes with symbolic "
        "sign/digits (reals compared by their text); quoted strings with either quote and 0-2/0-3 symbolic characters "
        "(ODL-family folding in the oracle); unquoted identifier strings; units after int / real / sequence with "
        "symbolic unit characters and optional space; quoted contents of fixed shapes with every white-space character at "
        "the marked places (a-WWb, aW-Wb, ...: folding and dash continuation over LF / CR-LF / indented lines); each in "
        "up to 11 contexts (plain, ';' delimited, no spaces, between comments, inside sequences/sets/nested sequences, "
        "inside a group, four levels of brackets, three levels of blocks) so the look-ahead rules run in context; block statements with EVERY letter of both keywords in either case (2^k spellings per path set), "
        "optional ';', optional block name on the end statement, nesting. Five loader configurations. Outside: longer "
        "digit strings, several non-trivial values per label, magnitude of reals (text only).",
   ref='5 (C03)', technique='symbolic execution (symx) of lexer+parser+decoder on spelling templates with symbolic parts; spec-side expected values in LIA; z3'),
 'C04': dict(
   text="Bounded symbolic execution of the real loaders on five token lists (17-27 tokens: all simple-value kinds, "
        "sequence, set, units, blocks with begin/end names, based/signed/temporal/real values, quoted strings spanning "
        "lines) whose inter-token gaps "
        "in a sliding window are SYMBOLIC separators: runs of 0 (only where the grammar makes white space optional), "
        "1 or 2 characters each any of the six white-space characters, a comment /* c */ or /* cd */ with FREE symbolic "
        "inner characters (only the terminator '*/' itself excluded) with or without symbolic white space around it, and "
        "for the ISIS and default grammars white space + '#' + one or two free symbolic characters + newline. Assertion: the load succeeds and equals the load of the single-blank "
        "layout. Window of 1-3 gaps (quick) / 2-4 (thorough) at every position. One known finding (D37) listed and "
        "its class assumed away. Outside: separators longer than 2, nested comment-like text, corpus files.",
   ref='5 (C04)', technique='symbolic execution (symx) of the loaders with symbolic inter-token separators vs the single-blank layout; z3'),
 'C05': dict(
   text="Bounded symbolic execution of the real parsers (PVL, ODL, PDS3 configurations and the default loader) driven "
        "through their public lexer_fn parameter by a SYMBOLIC TOKEN STREAM: a generator following the documented "
        "send/throw protocol yields, each time the parser pulls, a real Token chosen lazily by a solver variable from "
        "a 20-lexeme vocabulary (names, '=', integer, quoted string, ';', brackets, comma, units, malformed units, "
        "comment, the block keywords, END) or end-of-stream; positions never pulled stay unconstrained. Every stream of "
        "at most 5 (quick) / 6 (thorough, one obligation per first token) tokens, also after four fixed token prefixes "
        "(inside a group, after a statement and an open object, two blocks deep). Oracle: an independent recogniser/evaluator of the statement grammar written "
        "from the Blue Book / ODL BNF (no pvl code), extended for the default loader by exactly the missing-value "
        "rule. Assertion: a module is returned only if the reference accepts everything pulled up to END / end of "
        "stream and the module equals the reference's. "
        "Character level: ten constructs opened by concrete text (quoted string with either quote, comment, units, "
        "sequence, set, also nested and inside a group) followed by EVERY tail of 0-2 (quick) / 0-3 characters that does "
        "not close them: the load must raise. Outside: longer streams and tails.",
   ref='5 (C05)', technique='symbolic execution (symx) of the parsers over a lazily chosen symbolic token stream vs an independent recogniser; z3'),
 'C06': dict(
   text="Bounded symbolic execution. (i) Character level: pvl.loads(s, ...) for a FULLY symbolic text s of every "
        "length 0-3 (quick; default loader 0-2) / 0-4 (0-3; length 4 as one obligation per class of the first character) over the dialect's whole alphabet (latin-1 / ASCII / "
        "'omni'), five loader configurations: the outcome is a module, LexerError or ParseError. (ii) Token level: the "
        "C05 stream harness with k <= 5 / 6 tokens, and 3 / 4 tokens after six fixed prefixes (inside a set, a sequence, "
        "a set in a set, a sequence in a set, after units, inside a group): no other exception type escapes, and the number of generator "
        "operations on a path stays within 40*(k+2); (iii) 23 value shapes (times with zones and fractions, leap "
        "seconds, day-of-year dates, based integers, reals) with every digit and sign symbolic, as a value, a sequence "
        "element and a parameter name. Progress measure: 40*(k+2) (a progress measure; termination itself is not provable by "
        "bounded execution - a path exceeding the measure or the per-path wall clock is reported). Outside: longer "
        "inputs, recursion-depth exhaustion on deep nesting, mutation of real label files (a fuzzing technique).",
   ref='5 (C06)', technique='symbolic execution (symx) of lexer+parsers on fully symbolic short texts and symbolic token streams; z3'),
 'C07': dict(
   text="Bounded symbolic execution of the whole chain default-load -> dump -> default-load -> dump on templates "
        "whose symbolic parts produce the loader-only values: a quoted string of 0-2 (quick) / 0-3 symbolic "
        "characters, an unquoted value of 1-2 / 1-3 symbolic printable characters (so it may spell a number, a "
        "keyword, a delimiter ...), leap-second times with symbolic digits (with fraction, with a date in a "
        "symbolic year), block keywords in every letter case, missing values in seven positions with symbolic "
        "layout, units on a sequence / set, based integers and reals in non-canonical spellings, 14 value shapes with "
        "symbolic digits (zoned and fractional times, day-of-year dates, reals whose repr uses an exponent), same-named "
        "sibling groups of which a later one is not a valid PDS3 group; four encoders. "
        "Assertions: the second load equals the spec-side normalisation of the first (C01/C02 oracle for the "
        "encoder's dialect), its errors list is empty, and the two dumps are identical strings; encoder refusal is "
        "allowed. Outside: corpus files, longer values.",
   ref='5 (C07)', technique='symbolic execution (symx) of loads/dumps/loads/dumps on templates with symbolic parts; z3'),
 'C08': dict(
   text="Bounded symbolic execution of the real default loader on 19 label templates (top level, inside blocks, first/"
        "last in a block, before a block, adjacent gaps, with delimiters, with/without END, up to 5 assignments, "
        "comments containing '=' and line ends before/between/directly after the statements, a multi-line quoted "
        "string before the gaps, repeated names, names and values that spell the keywords NULL/TRUE/FALSE): "
        "EVERY subset of assignments has its value removed (solver-chosen) and EVERY inter-token gap is a symbolic "
        "member of {blank, TAB, CR, LF}, so pvl's linecount/rfind arithmetic runs on the symbolic text; one path "
        "typically covers all 4^k layouts of a removal pattern. Assertions: every statement present in order, each "
        "gap an empty-string placeholder whose lineno is the 1-based line of its '=' (harness's own sum over the gap "
        "variables), module.errors exactly those lines sorted; strict PVL/ODL/PDS3 parsers raise LexerError/ParseError "
        "iff some value is missing (fixed layout there). Four templates also with TWO symbolic characters per gap, so "
        "CR-LF line ends occur. One known finding (D50: a dash continuation before the gap shifts the line) is listed "
        "and its class assumed away. Outside: gaps inside sequences, longer labels.",
   ref='5 (C08)', technique='symbolic execution (symx) of OmniParser repair hooks with symbolic layout and removal pattern; z3'),
 'C09': dict(
   text="Bounded symbolic execution of what symbolic execution can reach of this property. (a) loads(label + END + "
        "symbolic separator (white space or ';'; or NUL / ANY character outside the dialect's character set directly "
        "after END) + 1-2 (quick) / 1-4 UNCONSTRAINED symbolic characters over the whole Unicode range) "
        "through a counting proxy around the real lexer passed as lexer_fn, five loaders: the module equals the bare "
        "label's, the last token pulled is END, and for the strict parsers a non-interference query per path "
        "(PC(t) and not PC(t') unsat for fresh t') shows no decision depended on the tail - which carries over to "
        "every longer tail because the lexer reads left to right and is not resumed after END; for the default "
        "loader (whose document-level dash substitution legitimately reads the tail) equality and the pull count. "
        "(b) decode_by_char / get_text_from / load on stub binary and text streams (the text stub decodes a chunk at a "
        "time like io.TextIOWrapper and has .buffer) whose bytes after the label are symbolic, also positioned after a "
        "header of symbolic bytes (skipped with seek(), or read through the text layer in chunks of 4 bytes so that "
        "the buffer underneath has read ahead), and loads() of a bytes object with a symbolic tail: exactly the longest all-ASCII "
        "prefix, same module as the str entry; with the label ending in END and no line end, every entry point does "
        "what loads does with the decodable prefix (nothing after an undecodable byte joins END). (c) dump to stub text "
        "/ binary streams writes exactly dumps(...) / its UTF-8 encoding once and returns what write returns, "
        "symbolic string leaf. NOT reachable and not claimed: real paths, PathLike, file: URLs, OS buffering (C/OS "
        "boundary) - left to tests/test_init.py.",
   ref='5 (C09), 6', technique='symbolic execution (symx) with unconstrained tail + per-path non-interference SMT query; stub streams with symbolic bytes; z3'),
 'C10': dict(
   text="Inductive step decided by symbolic execution of the real container code: pre-state = the container built "
        "from an arbitrary list of 0-3 (quick) / 0-4 (thorough) pairs - every key equality pattern (restricted-growth "
        "key choice by solver-decided integers), symbolic integer values - then ONE of 23 documented operations (extend also with a multi-dict argument) with "
        "every argument choice (existing or new key, index in [-n-2, n+2], instance in [-n-1, n+1], 0-2 argument "
        "pairs, symbolic values), then the full observer suite (iteration, len, integer and slice indexing, the three "
        "views, membership, [], get, getall, key_index, equality/inequality with same and other classes, and the "
        "representation invariant dict-storage = grouping of the item list) against a plain list-of-pairs model, for "
        "OrderedMultiDict, PVLModule, PVLGroup, PVLObject. Because the invariant is part of the post-condition the "
        "step composes to histories of any length over pre-states within the bound. Outside: pre-states longer than "
        "the bound, unhashable keys, PVLMultiDict.",
   ref='5 (C10)', technique='symbolic execution (symx) of pvl.collections, one inductive step from an arbitrary bounded state; z3 decides every branch'),
 'C11': dict(
   text="Same pre-states as C10 (0-2 quick / 0-3 thorough pairs, optionally one nested group/object of 0-2 pairs); "
        "for .copy(), copy.copy, copy.deepcopy and a pickle round trip: the copy and the original both match the "
        "model at every level with the same classes, are equal, are distinct objects (nested level too for deep "
        "copies/pickles), and ONE symbolic mutation (11 kinds, top or nested level) on either side leaves the other "
        "side matching the model. Values are symbolic ints for the two shallow mechanisms; deepcopy/pickle cross the "
        "C boundary, so their values are concrete distinct ints and only shape, keys and the follow-up mutation are "
        "solver-chosen. DeepValues: a fixed module with 11 mutable objects at depths 1-4 (list values, lists inside "
        "Quantities and tuples, nested lists, a set, containers inside containers): after deepcopy / pickle no object is "
        "shared, and changing a solver-chosen one in place on a solver-chosen side leaves the other side's structural "
        "snapshot unchanged. Outside: longer containers, deeper nesting.",
   ref='5 (C11)', technique='symbolic execution (symx) of pvl.collections copy paths; bounded shapes, z3 decides every branch'),
 'C12': dict(
   text="Bounded symbolic execution of the real encoders on the C01 module shapes (plus shapes whose PARAMETER NAME "
        "is, or contains after '^' / inside NS..EL, the symbolic string, for ODL/PDS3) with one symbolic string leaf of length 0-2 (quick) / 0-3 and the C01 "
        "configurations incl. symbolic widths ([30,100] and [1,14]); the oracle is an independent line-level reader of the symbolic "
        "output text written from the specifications (no pvl code): character set per dialect, CR-LF discipline, "
        "delimiters, preferred begin/end keywords, block matching with the name iff aggregation_end, indentation "
        "= level x indent, '=' alignment per block of sibling assignments whose padded form (line end counted) fits on a "
        "line, upper-case identifier names "
        "<= 30 chars (ODL/PDS3), no TAB (PDS3), symbol strings without format effectors, final END (+ line end). "
        "For ODL/PDS3 also with the symbolic string as the UNITS of a scalar and of a sequence element (no TAB there either). "
        "Outside: the units-only-after-numbers rule is exercised only through encoder refusals, longer leaves, block names "
        "(taken as valid, like parameter names of PVL/ISIS).",
   ref='5 (C12)', technique='symbolic execution (symx) of the encoders; independent reader evaluated on the symbolic output; z3; bounded'),
 'C13': dict(
   text="Bounded symbolic execution of encode/dumps called twice on the same module object for the C01 shapes "
        "(duplicate keys, duplicate block names, groups that are / are not valid PDS groups at the top level and below "
        "it, nesting) with one "
        "symbolic string leaf (length 0-1 quick / 0-2), four encoders, several configurations: both texts identical, "
        "structural snapshots (classes, keys, values, order at every level) before / between / after equal, except "
        "PVLGroup -> PVLObject with identical content at the same position for PDS3; a refusal must not have "
        "changed the argument either. Interleaved: encoder A, another dialect's encoder B, A again (same and fresh "
        "instance) on a module whose strings the solver picks from 28 words the dialects treat differently: the three A "
        "texts are identical. Shared: ONE encoder instance dumps labels A, B, A that the solver assembles out of 8 layouts "
        "over the SAME group/object instances; each text equals a fresh encoder's. Outside: modules beyond the listed shapes.",
   ref='5 (C13)', technique='symbolic execution (symx) of the encoders with before/after snapshots; z3; bounded'),
 'C14': dict(
   text="Bounded symbolic execution of the real decode_datetime/encode_time code with ALL field values symbolic. "
        "Decode: every digit assignment of each temporal shape (2 date forms, HH:MM, HH:MM:SS, fractions of 1/3/6 "
        "(quick) or 1-6 (thorough) digits, T-joined, suffix none/Z/z/+H/-HH/+HHMM/-HH:MM) per dialect, through "
        "decoder.decode_datetime and through loads('T = <text>') so that the lexer's sign-in-datetime rule is on the "
        "path; the harness's own calendar in linear integer arithmetic gives validity and the expected type, fields "
        "and zone (Z -> UTC, ODL offset -> that offset, unmarked -> UTC in PVL/ISIS/PDS3/default and naive in ODL, "
        "seconds = 60 -> text in PVL/ISIS/default and rejected by ODL/PDS3, PDS3 rejects offsets and sub-millisecond "
        "fractions). Encode: every valid date / time / datetime (years 1-9999, every microsecond or every "
        "millisecond, zone naive / UTC / any whole-minute offset within +-14 h as a fixed-offset timezone and as a tzinfo whose offset "
        "depends on the date, i.e. utcoffset(None) is None) through the real encoder and back "
        "through the same dialect's decoder: same type, same instant at the same precision, or ValueError. No bound "
        "on field values; the bound is structural (one temporal value, shapes listed). Quick omits "
        "every-microsecond x every-offset. Outside: unpadded spellings, dateutil forms (absent), sub-minute offsets.",
   ref='5 (C14)', technique='symbolic execution (symx) of decoder/encoder time code with all digits/fields symbolic; calendar oracle in LIA; z3'),
 'C15': dict(
   text="Bounded symbolic execution of the real grammar/lexer/exception code. (a) char_allowed of all five grammars "
        "for ONE symbolic code point over the whole range U+0000-10FFFF against the spec sets: exhaustive, every "
        "path decided by z3. (b) a label template with one symbolic character (alphabet 'omni': U+0000-02FF plus "
        "selected higher code points) at each of 18 syntactic positions (incl. after a begin keyword, a block name, an "
        "end keyword with and without blank, an end-statement block name, inside a sequence, after ';', after a dash "
        "continuation inside a quoted string) x 5 dialects, for PVL/ODL/PDS3 both through the strict parser and through "
        "pvl.loads(text, grammar=G) (the default parser class, rejection only): LexerError exactly for "
        "characters outside the set before END, unchanged load for position-neutral characters, error position "
        "attributes consistent with the text. (c) LexerError position arithmetic for every document over {LF,x} up "
        "to length 6 (quick) / 10 (thorough), every pos, lexeme lengths 0-2. Outside: more than one foreign "
        "character per label, documents longer than the bound in (c).",
   ref='5 (C15)', technique='symbolic execution (symx) of pvl.grammar/lexer/exceptions with z3 deciding every branch; bounded'),
 'C16': dict(
   text="Inductive step by bounded symbolic execution: a parser instance (Omni, PVL, ODL, PDS3, ISIS configurations) "
        "whose errors attribute is ANY list of 0-2 integers and whose doc is ANY string of length <= 3 parses a text "
        "of the C08 family (every removal pattern, symbolic layout): module, module.errors, exception type and the "
        "attributes afterwards equal those of a fresh instance, so any history reduces to one step; plus explicit "
        "two-call histories (repairing / failing / tail-after-END text first), encoders after an encode that "
        "succeeded, converted a PDS3 group, or raised part-way (at a block value, inside a sequence, an inner sequence, "
        "a set, a quantity, a nested block) followed by shapes incl. ones a dialect must refuse (3-D sequence, None in "
        "a sequence, empty inner sequence; symbolic string leaf), decoders after an earlier "
        "decode (every string of length 2), and pvl_validate's shared dialect parsers driven twice. Outside: longer "
        "histories are covered only through the induction; pvl_translate's writers share the encoder obligations.",
   ref='5 (C16)', technique='symbolic execution (symx) from an arbitrary instance state (one inductive step) + two-call histories; z3'),
 'C17': dict(
   text="Bounded symbolic execution of the real decoder cascade, Token predicates and encoder quoting code on ONE "
        "fully symbolic token text per (grammar, decoder) pair: every string of length 0-3 (quick) / 0-4 (thorough) "
        "over the dialect's alphabet (latin-1 for PVL/ISIS, ASCII for ODL/PDS3, 'omni' for the default decoder: "
        "length 0-2 / 0-3) for the stage/predicate consistency obligations and length 0-4 / 0-6 for the "
        "writer obligation; plus every letter-case spelling of 19 keyword-like words and every digit assignment "
        "of 23 numeric/temporal shapes. Obligations: decode_simple_value equals the documented cascade of the "
        "separately callable stages; Token.is_* agree with the stages, are pairwise exclusive, numeric/temporal "
        "text is never an unquoted string or parameter name, and a begin keyword (per-dialect table: ISIS has no BEGIN_ "
        "forms), END, a comment or a delimiter is never a parameter name or a simple value; encode_string(s) returns s bare only if it decodes to "
        "the identical str and otherwise a quoted form that decodes to s (modulo ODL white-space folding) or raises "
        "ValueError. Outside: longer free strings, dateutil (absent).",
   ref='5 (C17)', technique='symbolic execution (symx) of pvl.decoder/token/encoder with z3 deciding every branch; bounded string length'),
 'C18': dict(
   text="Bounded symbolic execution of the real loaders (PVL, ODL, PDS3 configurations and the default one) built "
        "with substitute classes: real_cls = a Decimal-like class recording the exact text it receives, quantity_cls, "
        "module/group/object subclasses. One real number of 4 (quick) / 7 shapes with SYMBOLIC digits (trailing zeros, "
        "exponent forms, '.dd', 'd.') at 7 kinds of position: top level, sequence element, set element, nested "
        "sequence, quantity magnitude, quantity inside a sequence, inside a group inside an object, units on a whole sequence / set, with integers "
        "beside it; the grammar and decoder wired as one shared object, two separate ones, decoder only, or through "
        "pvl.loads keywords; reals beyond the range of a double. Assertions: every real is the substitute with recorded text == the lexeme; every value-with-"
        "units is the substitute quantity; every container is the substitute class; integers are int; erasing the "
        "substitutes gives exactly the default result; supplying the substitutes does not change acceptance. "
        "Outside: several reals per label, other quantity libraries.",
   ref='5 (C18)', technique='symbolic execution (symx) of parser/decoder with substitute classes on symbolic real lexemes; z3'),
 'C19': dict(
   text="Differential bounded symbolic execution: pvl.new.loads(t) against pvl.loads(t) on the same SYMBOLIC text t "
        "for the C03 spelling templates of the default loader (based integers in both sign positions, decimal "
        "numbers, quoted strings with symbolic content over alphabet 'omni', unquoted strings, units, all contexts) "
        "and the block templates with every keyword letter case: both succeed, the (name, value) item sequences are "
        "equal at every level, the classes are PVLModuleNew/PVLGroupNew/PVLObjectNew, and pvl.new.dumps(new) equals "
        "pvl.dumps(old) as strings for the default encoder and the PVL and PDS3 encoders (quick; all four thorough). "
        "Parity harnesses: a label with names of 1-4 characters and NULL/TRUE/FALSE in every letter case, sets, quantities "
        "and a date; the C08 templates (every pattern of missing values, symbolic layout) through both loaders - "
        "same outcome, items, placeholders and errors list; text 'a = x<c> <sep>b = 2<sep>END' with symbolic characters "
        "through both entry points with the same parser= / grammar= / decoder= arguments (7 combinations). "
        "The third-party multidict executes concretely because names are concrete. Outside: longer free text, quoted "
        "strings with three free characters (loader side in C03), reals written with exponents beyond 29.",
   ref='5 (C19)', technique='differential symbolic execution (symx) of pvl.new vs pvl loaders/dumpers on templates with symbolic parts; z3'),
 'C20': dict(
   text="Bounded symbolic execution of the reachable kernels of the two tools. pvl_validate.pvl_flavor on the real "
        "module-level dialect table for texts with symbolic parts (C08 gap templates with every removal pattern, "
        "quoted/unquoted values of 1-2 symbolic characters, keyword letter cases, units, non-canonical numbers, times "
        "with symbolic digits incl. zone offsets and sub-millisecond fractions) against the harness's OWN table of "
        "parser/grammar/decoder/encoder classes per dialect: 'loads' <=> that dialect's load succeeds, 'encodes' <=> "
        "dumping the loaded module with that dialect's encoder succeeds. report / report_many / build_line for "
        "EVERY combination of the 5 x (loads, encodes) verdicts (solver-chosen) and 1-3 files against an independent "
        "rendering of the layout. Fault injection: pvl.loads / pvl.dumps as seen by pvl_flavor replaced by a stub whose "
        "outcome (returns / LexerError / ParseError / RuntimeError / RecursionError / KeyError / ValueError; dump: "
        "returns / ValueError / LexerError) and the verbosity 0-3 are solver-chosen: the verdict is (load succeeded, "
        "dump succeeded or None) and the report is produced. pvl_translate.formats[F].dump(module, stream) writes exactly pvl.dumps(module, "
        "encoder=<F's encoder class>()) for modules with a symbolic string leaf; JSON on six concrete labels (repeated names, "
        "nesting, an empty value): the document read with repeated keys kept is the label's list of (name, value) pairs. "
        "pvl_translate.main(['-of', F, in, out]) itself with argparse.FileType replaced by stub streams (argparse runs; the "
        "stubs record mode, encoding and errors): the bytes of the output file (UTF-8 / ISO 8859-1 modelled per symbolic "
        "character, locale = UTF-8) equal those pvl.dump writes for the loaded label, string of 0-1 (quick) / 0-2 characters "
        "over ISO 8859-1. NOT reachable and not claimed: real file opening, stdin/stdout, logging text, exit status.",
   ref='5 (C20), 6', technique='symbolic execution (symx) of pvl_flavor/report/format writers vs an independent dialect table and layout; z3'),
}
NA_REASON = "check not built yet (construction in progress, see DESIGN.md section 8)"

checks = []
for pid, c in sorted(CHECKS.items()):
    checks.append(dict(
        property_id=pid,
        quick_cmd="./run.py %s --tier quick" % pid,
        thorough_cmd="./run.py %s --tier thorough" % pid,
        evidence_file="/verif/evidence/%s.json" % pid,
        replay_cmd_template="/verif/.venv/bin/python /verif/replay.py {path}",
        engine=c.get('engine', 'symx'),
        level_claimed=dict(category=c.get('category', 'model_checking'), text=c['text'], design_ref=c['ref']),
        level_note=c.get('note', SYMX_NOTE),
        technique=c['technique'],
    ))
m = dict(
    version=1,
    setup_cmd="sh /verif/setup.sh",
    hooks=dict(guard="PVL_VERIF",
               enable="none needed: pvl is instrumented in memory at import by /verif/symx/load.py; /repo has no hook commits",
               baseline_off_cmd="cd /repo && /venv/bin/python -m pytest -ra -q -p no:cacheprovider --timeout=900 --continue-on-collection-errors",
               source_commits=[], add_only=True),
    engines=[
        dict(name="symx", path="/verif/symx", serves_properties=sorted(p for p, c in CHECKS.items() if c.get('engine', 'symx') == 'symx'),
             kind_free_text="purpose-built symbolic executor for pvl: AST-instrumented import of /repo/pvl, str/int/datetime proxies over z3 terms, DFS over decision prefixes by re-execution, per-path cross-check against the pristine sources, replay of counterexamples"),
        dict(name="crosshair", path="/verif/ch", serves_properties=sorted(p for p, c in CHECKS.items() if c.get('engine') == 'crosshair'),
             kind_free_text="CrossHair 0.0.110 (symbolic execution of Python with z3) on generated PEP-316 contract harnesses for the container class"),
    ],
    checks=checks,
    notes="Solver-based checking of the real code; see DESIGN.md. Exit 3 = machinery failure (never a verdict).",
    not_applicable=[dict(property_id=p['id'], reason=NA_REASON) for p in props if p['id'] not in CHECKS],
)
json.dump(m, open(os.path.join(V, 'MANIFEST.json'), 'w'), indent=1)
print('checks:', [c['property_id'] for c in checks], 'not_applicable:', len(m['not_applicable']))
