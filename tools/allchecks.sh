#!/bin/sh
# run every registered check once (tier from $1, default quick) and print one line each
cd "$(dirname "$0")/.."
TIER=${1:-quick}
OUT=${ALLCHECKS_OUT:-/tmp/allchecks_$TIER}
mkdir -p "$OUT"
ORDER=${ALLCHECKS_ORDER:-C01 C02 C03 C04 C05 C06 C07 C08 C09 C10 C11 C12 C13 C14 C15 C16 C17 C18 C19 C20}
for p in $ORDER; do
  s=$(date +%s)
  ./run.py $p --tier $TIER > $OUT/$p.out 2>$OUT/$p.err
  rc=$?
  e=$(date +%s)
  echo "$p rc=$rc $((e-s))s $(grep -c '^VIOLATION' $OUT/$p.out) violations, $(grep -c '^KNOWN-FINDING' $OUT/$p.out) known, $(grep -c '^HARNESS-ERROR' $OUT/$p.out) harness-errors | $(tail -1 $OUT/$p.out | cut -c1-160)"
done
