#!/usr/bin/env python3
"""Run the repository's pinned test suite (guard off) and compare with BASELINE.json's stable_pass."""
import json, subprocess, sys, tempfile, os, xml.etree.ElementTree as ET
base = json.load(open('/root/.vp/BASELINE.json'))
repo = sys.argv[1] if len(sys.argv) > 1 else '/repo'
with tempfile.TemporaryDirectory() as d:
    x = os.path.join(d, 'j.xml')
    env = dict(os.environ); env.pop('PVL_VERIF', None)
    subprocess.run(['/venv/bin/python', '-m', 'pytest', '-ra', '-q', '-p', 'no:cacheprovider', '--timeout=900',
                    '--continue-on-collection-errors', '--junitxml=' + x], cwd=repo, capture_output=True, env=env)
    passed = set()
    for tc in ET.parse(x).getroot().iter('testcase'):
        if not any(c.tag in ('failure', 'error', 'skipped') for c in tc):
            passed.add(tc.get('classname') + '::' + tc.get('name'))
missing = [t for t in base['stable_pass'] if t not in passed]
print('stable_pass=%d passed_now=%d missing=%d' % (len(base['stable_pass']), len(passed), len(missing)))
for t in missing: print('  MISSING', t)
sys.exit(1 if missing else 0)
