#!/bin/sh
# run every seeded change against the check of its own property (scratch worktrees; /repo untouched)
# usage: tools/seedmatrix.sh [lanes]   -> one line per seed in /tmp/seedmatrix.txt
cd "$(dirname "$0")/.."
LANES=${1:-3}
: > /tmp/seedmatrix.txt
ls seeded | grep -v retired | xargs -P "$LANES" -I{} sh -c 'p=$(echo {} | cut -c1-3); r=$(tools/seedcheck.py seeded/{}/patch.diff $p 2>&1 | head -1); echo "{} $r" >> /tmp/seedmatrix.txt'
sort /tmp/seedmatrix.txt
