#!/usr/bin/env python3
"""Confirm a sub-agent's seeded change myself, in a scratch worktree, and file it under /verif/seeded/<name>/.
usage: tools/seedverify.py <ID> [name]     (reads /tmp/seeds/<ID>/{patch.diff,demo.py,notes.md})
checks: the patch applies to a clean checkout of /repo HEAD; the pinned test suite still passes on the patched
tree (all of BASELINE stable_pass); demo.py exits 1 on the patched tree and 0 on the unchanged tree."""
import json, os, shutil, subprocess, sys, tempfile
V = os.path.dirname(os.path.dirname(os.path.abspath(__file__)))
sid = sys.argv[1]
name = sys.argv[2] if len(sys.argv) > 2 else sid
src = '/tmp/seeds/' + sid
wt = tempfile.mkdtemp(prefix='seedvt_')
os.rmdir(wt)
run = lambda *a, **k: subprocess.run(*a, capture_output=True, text=True, **k)
res = {}
try:
    assert run(['git', '-C', '/repo', 'worktree', 'add', '--detach', wt, 'HEAD']).returncode == 0
    r = run(['git', '-C', wt, 'apply', os.path.join(src, 'patch.diff')])
    res['applies'] = r.returncode == 0
    if not res['applies']:
        print(r.stderr)
    r = run([os.path.join(V, 'tools', 'baseline.py'), wt])
    res['tests_pass_with_change'] = r.returncode == 0
    res['tests_line'] = r.stdout.strip().splitlines()[0] if r.stdout.strip() else r.stderr[-200:]
    env = dict(os.environ, PYTHONDONTWRITEBYTECODE='1')
    d1 = run(['/venv/bin/python', '-W', 'ignore', os.path.join(src, 'demo.py'), wt], timeout=300, env=env, cwd='/tmp')
    d0 = run(['/venv/bin/python', '-W', 'ignore', os.path.join(src, 'demo.py'), '/repo'], timeout=300, env=env, cwd='/tmp')
    res['demo_with_change_exit'] = d1.returncode
    res['demo_unchanged_exit'] = d0.returncode
    res['demo_with_change_output'] = (d1.stdout + d1.stderr).strip()[-600:]
finally:
    run(['git', '-C', '/repo', 'worktree', 'remove', '--force', wt])
    shutil.rmtree(wt, ignore_errors=True)
ok = res.get('applies') and res.get('tests_pass_with_change') and res.get('demo_with_change_exit') == 1 and res.get('demo_unchanged_exit') == 0
print(json.dumps(res, indent=1)[:1500])
print('CONFIRMED' if ok else 'NOT CONFIRMED')
if ok:
    dst = os.path.join(V, 'seeded', name)
    os.makedirs(dst, exist_ok=True)
    shutil.copy(os.path.join(src, 'patch.diff'), dst)
    shutil.copy(os.path.join(src, 'demo.py'), dst)
    if os.path.exists(os.path.join(src, 'notes.md')):
        shutil.copy(os.path.join(src, 'notes.md'), dst)
    meta = dict(property=sid[:3], seed=name, source='independent sub-agent given only the property text and a scratch worktree',
                confirmed_by_me=dict(patch_applies_to_repo_head=True, pinned_tests_pass_with_change=res['tests_line'],
                                     demo_exit_with_change=1, demo_exit_unchanged=0),
                what_i_ran=['git worktree add --detach <scratch> HEAD; git apply patch.diff',
                            'tools/baseline.py <scratch>   (pinned suite vs BASELINE stable_pass)',
                            '/venv/bin/python demo.py <scratch>  -> exit 1', '/venv/bin/python demo.py /repo -> exit 0',
                            'git worktree remove --force <scratch>'],
                needs_to_manifest='see notes.md', detected_by=[])
    mp = os.path.join(dst, 'meta.json')
    if os.path.exists(mp):
        old = json.load(open(mp)); meta['detected_by'] = old.get('detected_by', []); meta['needs_to_manifest'] = old.get('needs_to_manifest', meta['needs_to_manifest'])
    json.dump(meta, open(mp, 'w'), indent=1)
sys.exit(0 if ok else 1)
