#!/usr/bin/env python3
"""Apply a seeded change to /repo, run the given checks, undo the change.
usage: tools/seedcheck.py <patch.diff> C01 [C02 ...] [--tier quick]
prints, per check: exit status and number of VIOLATION lines."""
import subprocess, sys, os
V = os.path.dirname(os.path.dirname(os.path.abspath(__file__)))
patch = os.path.abspath(sys.argv[1])
props = [a for a in sys.argv[2:] if not a.startswith('--')]
tier = 'quick'
if '--tier' in sys.argv:
    tier = sys.argv[sys.argv.index('--tier') + 1]
assert subprocess.run(['git', '-C', '/repo', 'status', '--porcelain', '--untracked-files=no'], capture_output=True, text=True).stdout.strip() == '', '/repo is dirty'
subprocess.run(['git', '-C', '/repo', 'apply', patch], check=True)
try:
    for p in props:
        r = subprocess.run([os.path.join(V, 'run.py'), p, '--tier', tier], capture_output=True, text=True, cwd=V)
        viol = [l for l in r.stdout.splitlines() if l.startswith('VIOLATION')]
        herr = [l for l in r.stdout.splitlines() if l.startswith('HARNESS-ERROR')]
        print('%s exit=%d violations=%d harness_errors=%d  %s' % (p, r.returncode, len(viol), len(herr), r.stdout.strip().splitlines()[-1][:150] if r.stdout.strip() else ''))
        for l in r.stdout.splitlines():
            if l.startswith('  obligation'):
                print('   ', l[:300]); break
finally:
    subprocess.run(['git', '-C', '/repo', 'checkout', '--', '.'], check=True)
