#!/usr/bin/env python3
"""Run checks against a seeded change.
usage: tools/seedcheck.py <patch.diff> C01 [C02 ...] [--tier quick] [--inplace]
default: the patch is applied in a scratch worktree of /repo HEAD (under /tmp, removed afterwards) and the checks
  run with PVL_REPO=<scratch> SYMX_OUT=<scratch out dir>, so /repo and the committed evidence stay untouched and
  several seeds can be tried at once;
--inplace: git -C /repo apply <patch>, run, git -C /repo checkout -- .  (the procedure of the brief; evidence
  files are rewritten and must be regenerated on the clean tree afterwards).
prints, per check: exit status and number of VIOLATION lines."""
import subprocess, sys, os, tempfile, shutil
V = os.path.dirname(os.path.dirname(os.path.abspath(__file__)))
patch = os.path.abspath(sys.argv[1])
props = [a for a in sys.argv[2:] if not a.startswith('--') and a not in ('quick', 'thorough')]
tier = 'quick'
if '--tier' in sys.argv:
    tier = sys.argv[sys.argv.index('--tier') + 1]
inplace = '--inplace' in sys.argv
env = dict(os.environ)
if inplace:
    assert subprocess.run(['git', '-C', '/repo', 'status', '--porcelain', '--untracked-files=no'], capture_output=True, text=True).stdout.strip() == '', '/repo is dirty'
    subprocess.run(['git', '-C', '/repo', 'apply', patch], check=True)
else:
    wt = tempfile.mkdtemp(prefix='seedck_')
    os.rmdir(wt)
    out = tempfile.mkdtemp(prefix='seedout_')
    subprocess.run(['git', '-C', '/repo', 'worktree', 'add', '--detach', wt, 'HEAD'], check=True, capture_output=True)
    subprocess.run(['git', '-C', wt, 'apply', patch], check=True)
    env.update(PVL_REPO=wt, SYMX_OUT=out)
try:
    for p in props:
        r = subprocess.run([os.path.join(V, 'run.py'), p, '--tier', tier], capture_output=True, text=True, cwd=V, env=env)
        viol = [l for l in r.stdout.splitlines() if l.startswith('VIOLATION')]
        herr = [l for l in r.stdout.splitlines() if l.startswith('HARNESS-ERROR')]
        print('%s exit=%d violations=%d harness_errors=%d  %s' % (p, r.returncode, len(viol), len(herr), r.stdout.strip().splitlines()[-1][:150] if r.stdout.strip() else r.stderr[-300:]))
        for l in r.stdout.splitlines():
            if l.startswith('  obligation'):
                print('   ', l[:300]); break
        for l in herr[:2]:
            print('   ', l[:300])
finally:
    if inplace:
        subprocess.run(['git', '-C', '/repo', 'checkout', '--', '.'], check=True)
    else:
        subprocess.run(['git', '-C', '/repo', 'worktree', 'remove', '--force', wt])
        shutil.rmtree(wt, ignore_errors=True)
        shutil.rmtree(out, ignore_errors=True)
