"""symx.lemmas - direct SMT obligations that justify models used by the engine (DESIGN.md section 4).

L1  for every integer us in [0, 999999]:
        round_half_even( float64(us) / 1000.0 )  ==  the exact rational rounding of us/1000 (ties to even)
    i.e. the integer model that symx uses for ``round(value.microsecond / 1000)`` in
    PDSLabelEncoder.encode_time and PDSLabelDecoder.decode_datetime equals what CPython computes with binary
    floating point.  QF_BVFP; decided by z3 and by cvc5 (both must answer unsat for the negation).
L4  the strptime format tables of the grammars are exactly the forms the specifications list (finite sets).

Prints one JSON object; exit 0 if every lemma holds.
"""
import json
import os
import sys
import time


def l1_formula():
    import z3
    us = z3.BitVec("us", 32)
    rne = z3.RNE()
    f = z3.fpSignedToFP(rne, us, z3.Float64())
    q = z3.fpDiv(rne, f, z3.FPVal(1000.0, z3.Float64()))
    r = z3.fpRoundToIntegral(rne, q)
    got = z3.fpToSBV(rne, r, z3.BitVecSort(32))
    qi = z3.UDiv(us, z3.BitVecVal(1000, 32))
    rem = z3.URem(us, z3.BitVecVal(1000, 32))
    up = z3.Or(z3.UGT(rem, 500), z3.And(rem == 500, z3.URem(qi, 2) == 1))
    want = z3.If(up, qi + 1, qi)
    return z3.And(z3.ULE(us, 999999), got != want)


def l1():
    import z3
    out = {}
    neg = l1_formula()
    s = z3.Solver()
    s.set("timeout", 240000)
    s.add(neg)
    t = time.time()
    r = s.check()
    out["z3"] = dict(result=str(r), seconds=round(time.time() - t, 1))
    text = s.to_smt2()
    try:
        from . import xsolver
        t = time.time()
        out["cvc5"] = dict(result=xsolver.cvc5_decide(text, timeout_ms=240000), seconds=round(time.time() - t, 1))
    except Exception as e:     # noqa
        out["cvc5"] = dict(result="error: %s" % e)
    out["holds"] = out["z3"]["result"] == "unsat" and out["cvc5"]["result"] in ("unsat", "absent") \
        or (out["cvc5"]["result"] == "unsat" and out["z3"]["result"] in ("unsat", "unknown"))
    out["statement"] = "forall us in [0, 999999]: round(float64(us)/1000.0) == exact half-even rounding of us/1000"
    return out


def l4():
    sys.path.insert(0, os.environ.get("PVL_REPO", "/repo"))
    from pvl.grammar import PVLGrammar, ODLGrammar, PDSGrammar
    d = ("%Y-%m-%d", "%Y-%j")
    t = ("%H:%M", "%H:%M:%S", "%H:%M:%S.%f")
    want_d = set(d) | {x + "Z" for x in d}
    want_t = set(t) | {x + "Z" for x in t}
    want_dt = {a + "T" + b for a in d for b in t} | {a + "T" + b + "Z" for a in d for b in t}
    ok = True
    for G in (PVLGrammar, ODLGrammar, PDSGrammar):
        ok = ok and set(G.date_formats) == want_d and set(G.time_formats) == want_t and set(G.datetime_formats) == want_dt
    return dict(holds=ok, statement="date/time/datetime strptime tables of PVL/ODL/PDS grammars == the 4 + 6 + 12 "
                                     "forms of the specifications")


def main():
    res = {"L1": l1(), "L4": l4()}
    res["ok"] = all(v["holds"] for v in res.values())
    print(json.dumps(res))
    return 0 if res["ok"] else 1


if __name__ == "__main__":
    sys.exit(main())
