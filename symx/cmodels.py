"""symx.cmodels - models of the C-level functions pvl calls (DESIGN.md section 2.5).

Every model is exact on concrete arguments (it simply calls the builtin) and is
validated differentially against CPython on each run (symx.selftest).
"""
import builtins
import math as _math
import datetime as _dt
import re as _re
import string as _string
import unicodedata
import _strptime

import z3

from .core import (Unsupported, HarnessError, Ctx, SymBool, SymInt, SymRat, SymStr, SymChar, SymBytes, B, I,
                   mkbool, mkint, zand, zor, znot, ch_eq, ch_in, in_ranges, ranges_norm, ranges_has,
                   ranges_inter, ranges_minus, ranges_iter, concretize)
from . import rx

_isinstance = builtins.isinstance


# --------------------------------------------------------------------------
# numbers
class SymFloat:
    """a real number represented by the text it was read from / is written as.
    The only trusted facts are float(repr(x)) == x and the language of
    repr(float) (DESIGN.md section 4); magnitude is opaque."""
    __slots__ = ("text",)

    def __init__(self, text):
        self.text = text

    def __eq__(self, o):
        if _isinstance(o, SymFloat):
            a, b = SymStr.of(self.text), SymStr.of(o.text)
            if len(a.cs) == len(b.cs) and a.eqz(b) is True:
                return True
            # finite floats with at most 15 significant digits are equal iff their canonical repr texts are
            ca, cb = SymStr(float_repr(a)), SymStr(float_repr(b))
            if len(ca.cs) != len(cb.cs):
                return False
            return mkbool(ca.eqz(cb))
        if _isinstance(o, float):
            return self.__eq__(SymFloat(SymStr.of(builtins.repr(o))))
        if _isinstance(o, (int, SymInt)):
            raise Unsupported("numeric comparison of a symbolic float with an int")
        return False

    def __ne__(self, o):
        r = self.__eq__(o)
        return (not r) if _isinstance(r, bool) else ~r

    def __hash__(self):
        raise Unsupported("hash of SymFloat")

    def __repr__(self):
        return "SymFloat(%r)" % (self.text,)

    def __concretize__(self, m):
        return float(concretize(self.text, m))

    def __float__(self):
        raise Unsupported("float() of SymFloat at C level")


def _digit_table(within):
    """{delta: ranges} with value = cp - delta for every char int() accepts as a digit 0-35"""
    key = ("digitval", within)
    t = _tables.get(key)
    if t is None:
        by = {}
        for cp in ranges_iter(within):
            ch = chr(cp)
            v = None
            if ch.isascii():
                if ch.isdigit():
                    v = cp - 48
                elif "a" <= ch <= "z":
                    v = cp - 87
                elif "A" <= ch <= "Z":
                    v = cp - 55
            else:
                try:
                    v = unicodedata.decimal(ch)
                except ValueError:
                    v = None
            if v is not None:
                by.setdefault(cp - v, []).append((cp, cp))
        t = _tables[key] = tuple((d, ranges_norm(rs)) for d, rs in sorted(by.items()))
    return t


_tables = {}


def _digit_value(c, base):
    """(valid condition, value term or int) of string element c as a digit in *base*"""
    if _isinstance(c, str):
        try:
            return True, builtins.int(c, base)
        except ValueError:
            return False, 0
    conds = []
    val = z3.IntVal(0)
    for delta, rs in _digit_table(Ctx.cur.alphabet):
        # keep only code points whose value < base
        rs2 = tuple((a, min(b, delta + base - 1)) for a, b in rs if a - delta < base)
        rs2 = ranges_inter(ranges_norm(rs2), c.dom)
        if not rs2:
            continue
        cnd = in_ranges(c.z, rs2)
        conds.append(cnd)
        val = z3.If(cnd, c.z - delta, val)
    return zor(conds), val


def _is_space_cond(c):
    from .core import ranges_from_pred
    return ch_in(c, ranges_from_pred("isspace", str.isspace, Ctx.cur.alphabet))


def sym_int(x=0, base=None):
    if _isinstance(x, SymInt):
        if base is not None:
            raise TypeError("int() can't convert non-string with explicit base")
        return x
    if _isinstance(x, SymBool):
        return mkint(z3.If(x.z, 1, 0))
    if _isinstance(x, SymFloat):
        raise Unsupported("int(SymFloat)")
    if _isinstance(x, SymRat):
        raise Unsupported("int(SymRat)")
    if _isinstance(base, SymInt):
        base = builtins.int(base)            # forks over its values
    if not _isinstance(x, SymStr):
        if base is None:
            return builtins.int(x)
        return builtins.int(x, base)
    if x.is_concrete():
        return builtins.int(x.concrete(), 10 if base is None else base)
    if base is None:
        base = 10
    if base == 0 or not (2 <= base <= 36):
        raise Unsupported("int() base %r" % (base,))
    ctx = Ctx.cur
    cs = list(x.cs)
    # CPython (_PyUnicode_TransformDecimalAndSpaceToASCII + PyLong_FromString): characters below
    # 127 are taken as they are, so only the C isspace set is stripped among them (U+001C-001F are
    # NOT), while every non-ASCII Unicode white-space character is turned into a blank first
    while cs and ctx.decide_b(ch_in(cs[0], _num_space())):
        cs.pop(0)
    while cs and ctx.decide_b(ch_in(cs[-1], _num_space())):
        cs.pop()
    neg = False
    if cs and ctx.decide_b(zor([ch_eq(cs[0], "+"), ch_eq(cs[0], "-")])):
        neg = ctx.decide_b(ch_eq(cs[0], "-"))
        cs.pop(0)
    # optional base prefix
    if base in (2, 8, 16) and len(cs) >= 2:
        letter = {2: "b", 8: "o", 16: "x"}[base]
        if ctx.decide_b(zand([ch_eq(cs[0], "0"), zor([ch_eq(cs[1], letter), ch_eq(cs[1], letter.upper())])])):
            cs = cs[2:]
            if cs and ctx.decide_b(ch_eq(cs[0], "_")):
                cs = cs[1:]
    if not cs:
        raise ValueError("invalid literal for int() [symbolic]")
    val = 0
    prev_us = True          # an underscore may not come first, last or doubled
    for k, c in enumerate(cs):
        if ctx.decide_b(ch_eq(c, "_")):
            if prev_us or k == len(cs) - 1:
                raise ValueError("invalid literal for int() [symbolic]")
            prev_us = True
            continue
        prev_us = False
        ok, d = _digit_value(c, base)
        if not ctx.decide_b(ok):
            raise ValueError("invalid literal for int() [symbolic]")
        val = val * base + d
    if _isinstance(val, builtins.int):
        return -val if neg else val
    return mkint(-val if neg else val)


_FLOAT_BODY = (r"[+-]?((\d(_?\d)*\.?(\d(_?\d)*)?|\.\d(_?\d)*)([eE][+-]?\d(_?\d)*)?|[iI][nN][fF]|"
               r"[iI][nN][fF][iI][nN][iI][tT][yY]|[nN][aA][nN])")
_NUM_WS = "".join(chr(c) for c in range(0x3001) if (c < 127 and chr(c) in " \t\n\r\v\f") or (c >= 127 and chr(c).isspace()))
_FLOAT_RE = "[" + _NUM_WS + "]*" + _FLOAT_BODY + "[" + _NUM_WS + "]*"


def _num_space():
    from .core import ranges_from_pred
    return ranges_from_pred("numspace", lambda ch: ch in _NUM_WS, Ctx.cur.alphabet)




def sym_float(x=0.0):
    if _isinstance(x, SymFloat):
        return x
    if _isinstance(x, SymInt):
        raise Unsupported("float(SymInt)")
    if not _isinstance(x, SymStr):
        return builtins.float(x)
    if x.is_concrete():
        return builtins.float(x.concrete())
    pat = rx.sym_compile(_FLOAT_RE)
    if pat.fullmatch(x) is None:
        raise ValueError("could not convert string to float [symbolic]")
    return SymFloat(SymStr(x.cs))


def float_repr(text):
    """repr(float(text)) for a positional decimal text with at most 15 significant digits and a
    magnitude that repr() writes without an exponent; everything else is outside the model"""
    ctx = Ctx.cur
    cs = list(text.cs)
    while cs and ctx.decide_b(ch_in(cs[0], _num_space())):
        cs.pop(0)
    while cs and ctx.decide_b(ch_in(cs[-1], _num_space())):
        cs.pop()
    neg = False
    if cs and ctx.decide_b(zor([ch_eq(cs[0], "+"), ch_eq(cs[0], "-")])):
        neg = ctx.decide_b(ch_eq(cs[0], "-"))
        cs.pop(0)
    for word, out in (("inf", "inf"), ("infinity", "inf"), ("nan", "nan")):
        if len(cs) == len(word) and ctx.decide_b(zand([zor([ch_eq(c, w), ch_eq(c, w.upper())]) for c, w in zip(cs, word)])):
            return (["-"] if neg and out == "inf" else []) + list(out)
    ip, fp, seen_dot = [], [], False
    exp = None
    for k, c in enumerate(cs):
        if not seen_dot and ctx.decide_b(ch_eq(c, ".")):
            seen_dot = True
            continue
        if not ctx.decide_b(ch_in(c, ((48, 57),))):
            if (ip or fp) and ctx.decide_b(zor([ch_eq(c, "e"), ch_eq(c, "E")])):
                # exponent: [+-] and at most two ASCII digits, each decided (one path per exponent value)
                es = cs[k + 1:]
                eneg = False
                if es and ctx.decide_b(zor([ch_eq(es[0], "+"), ch_eq(es[0], "-")])):
                    eneg = ctx.decide_b(ch_eq(es[0], "-"))
                    es = es[1:]
                if not es or len(es) > 3:
                    raise Unsupported("repr of a float with an exponent of more than three digits")
                exp = 0
                for e in es:
                    for dv in range(10):
                        if ctx.decide_b(ch_eq(e, str(dv))):
                            exp = exp * 10 + dv
                            break
                    else:
                        raise Unsupported("repr of a float written with underscores or non-ASCII digits in the exponent")
                exp = -exp if eneg else exp
                break
            raise Unsupported("repr of a float written with underscores, non-ASCII digits, inf or nan")
        (fp if seen_dot else ip).append(c)
    if exp and abs(exp) > 30:
        # far outside the range of a double: overflow to inf / underflow to zero (the band in between is not modelled)
        if not ip or not ctx.decide_b(znot(B(ch_eq(ip[0], "0")))):
            raise Unsupported("repr of a float with an exponent beyond +-30 and no leading non-zero digit")
        dec_exp = len(ip) - 1 + exp
        if dec_exp >= 310:
            return (["-"] if neg else []) + list("inf")
        if dec_exp <= -345:
            return (["-"] if neg else []) + list("0.0")
        raise Unsupported("repr of a float with an exponent beyond +-30")
    if exp:
        digits, pos = ip + fp, len(ip) + exp
        if pos <= 0:
            ip, fp = [], ["0"] * (-pos) + digits
        elif pos >= len(digits):
            ip, fp = digits + ["0"] * (pos - len(digits)), []
        else:
            ip, fp = digits[:pos], digits[pos:]
    while len(ip) > 1 and ctx.decide_b(ch_eq(ip[0], "0")):
        ip.pop(0)
    while len(fp) > 1 and ctx.decide_b(ch_eq(fp[-1], "0")):
        fp.pop()
    if not ip:
        ip = ["0"]
    if not fp:
        fp = ["0"]
    int_zero = len(ip) == 1 and ctx.decide_b(ch_eq(ip[0], "0"))
    frac_zero = len(fp) == 1 and ctx.decide_b(ch_eq(fp[0], "0"))
    sign = ["-"] if neg else []

    def scientific(digits, e10):
        # repr() switches to d.ddde+XX outside 1e-4 <= |x| < 1e16 (exponent of at least two digits)
        return sign + [digits[0]] + ((["."] + digits[1:]) if len(digits) > 1 else []) + list("e%s%02d" % ("-" if e10 < 0 else "+", abs(e10)))
    if not int_zero and len(ip) >= 17:
        digits = ip + ([] if frac_zero else fp)
        while len(digits) > 1 and ctx.decide_b(ch_eq(digits[-1], "0")):
            digits.pop()
        if len(digits) > 15:
            raise Unsupported("repr of a float with more than 15 significant digits")
        return scientific(digits, len(ip) - 1)
    if len(ip) + len(fp) > 15 or len(ip) > 15:
        # many digits, but perhaps only few significant ones (1000000000000000.0, 0.0000000000000015)
        digits = ([] if int_zero else ip) + ([] if frac_zero else fp)
        while len(digits) > 1 and ctx.decide_b(ch_eq(digits[-1], "0")):
            digits.pop()
        while int_zero and len(digits) > 1 and ctx.decide_b(ch_eq(digits[0], "0")):
            digits.pop(0)
        if len(digits) > 15:
            raise Unsupported("repr of a float with more than 15 significant digits")
    if int_zero and not frac_zero:
        lead = 0
        while lead < len(fp) and ctx.decide_b(ch_eq(fp[lead], "0")):
            lead += 1
        if lead >= 4:
            return scientific(fp[lead:], -(lead + 1))
    return sign + ip + ["."] + fp


def int_digits(v, width=0):
    """decimal digits of a SymInt as string elements.  With a *width* and a value
    known to fit, exactly *width* digits come out without any case split;
    otherwise the digit count is decided by forking."""
    ctx = Ctx.cur
    z = v.z
    dom = ((48, 57),)
    if width and ctx.decide(z3.And(z >= 0, z < 10 ** width)):
        return [SymChar(((z / (10 ** k)) % 10 if k else z % 10) + 48, dom) for k in range(width - 1, -1, -1)]
    neg = ctx.decide(z < 0)
    a = -z if neg else z
    nd = 1
    while not ctx.decide(a < 10 ** nd):
        nd += 1
        if nd > 24:
            raise Unsupported("integer with more than 24 digits")
    out = []
    for k in range(nd - 1, -1, -1):
        d = (a / (10 ** k)) % 10 if k else a % 10
        out.append(SymChar(d + 48, dom))
    if neg:
        out = ["-"] + out
    return out


def format_int(v, spec):
    if spec in ("", "d"):
        return SymStr.mk(int_digits(v))
    m = _re.fullmatch(r"0(\d+)d?", spec)
    if m:
        w = builtins.int(m.group(1))
        ds = int_digits(v, w)
        if ds and ds[0] == "-":
            body = ds[1:]
            body = ["0"] * max(0, w - 1 - len(body)) + body
            return SymStr.mk(["-"] + body)
        return SymStr.mk(["0"] * max(0, w - len(ds)) + ds)
    raise Unsupported("int format spec %r" % spec)


def format_str(s, spec):
    if spec == "":
        return SymStr(s.cs)
    m = _re.fullmatch(r"(.?)([<>^])(\d+)", spec)
    if m:
        fill, align, w = m.group(1) or " ", m.group(2), builtins.int(m.group(3))
        pad = max(0, w - len(s.cs))
        if align == "<":
            return SymStr.mk(s.cs + tuple(fill * pad))
        if align == ">":
            return SymStr.mk(tuple(fill * pad) + s.cs)
        left = pad // 2
        return SymStr.mk(tuple(fill * left) + s.cs + tuple(fill * (pad - left)))
    m = _re.fullmatch(r"(\d+)", spec)
    if m:
        return SymStr.mk(s.cs + tuple(" " * max(0, builtins.int(spec) - len(s.cs))))
    raise Unsupported("str format spec %r" % spec)


def sym_round(x, nd=None):
    if _isinstance(x, SymRat):
        return x.__round__(nd)
    if _isinstance(x, SymInt):
        return x
    if _isinstance(x, SymFloat):
        raise Unsupported("round(SymFloat)")
    return builtins.round(x) if nd is None else builtins.round(x, nd)


def sym_ord(x):
    if _isinstance(x, SymStr):
        if len(x.cs) != 1:
            raise TypeError("ord() expected a character, but string of length %d found" % len(x.cs))
        c = x.cs[0]
        return builtins.ord(c) if _isinstance(c, str) else SymInt(c.z)
    return builtins.ord(x)


def sym_chr(x):
    if _isinstance(x, SymInt):
        return SymStr((SymChar(x.z, Ctx.cur.alphabet),))
    return builtins.chr(x)


def sym_str(x="", *a):
    if a:
        return builtins.str(x, *a)
    if _isinstance(x, SymStr):
        return SymStr.mk(x.cs)
    if _isinstance(x, SymInt):
        return SymStr.mk(int_digits(x))
    if _isinstance(x, SymFloat):
        return SymStr.mk(float_repr(SymStr.of(x.text)))
    if _isinstance(x, SymBool):
        raise Unsupported("str(SymBool)")
    if _isinstance(x, (SymDate, SymTime, SymTimedelta)):
        return x.__str__()
    if _isinstance(x, SymBytes):
        raise Unsupported("str(SymBytes)")
    if _isinstance(x, BaseException) and builtins.any(_is_sym(a) for a in x.args):
        # message text of an exception built from symbolic pieces
        if len(x.args) == 1:
            return sym_str(x.args[0])
        return "<exception with symbolic arguments>"
    return builtins.str(x)


def sym_repr(x):
    if _isinstance(x, SymFloat):
        return SymStr.mk(float_repr(SymStr.of(x.text)))        # repr(float) is its canonical text
    if _isinstance(x, SymInt) and not _isinstance(x, SymBool):
        return sym_str(x)
    if _isinstance(x, (SymStr, SymInt, SymBool)):
        # the repr of a string (quotes, escapes) is only ever put into messages by pvl: a placeholder
        return "<sym>"
    return builtins.repr(x)


def sym_len(x):
    return builtins.len(x)


# classes that the patched module globals may carry instead of the builtins
def _norm_cls(t):
    if t is sym_int:
        return builtins.int
    if t is sym_float:
        return builtins.float
    if t is sym_str:
        return builtins.str
    if t is sym_set:
        return builtins.set
    if t is sym_frozenset:
        return builtins.frozenset
    if t is DatetimeShim or t is SymDatetime:
        return _dt.datetime
    if t is SymDate:
        return _dt.date
    if t is SymTime:
        return _dt.time
    if t is sym_timedelta or t is SymTimedelta:
        return _dt.timedelta
    if t is TimezoneShim or t is SymTz:
        return _dt.timezone
    return t


def sym_isfinite(x):
    """math.isfinite / isinf / isnan on a text-based symbolic float: decided on its canonical repr"""
    if _isinstance(x, SymFloat):
        r = SymStr.mk(float_repr(SymStr.of(x.text)))
        return not (r == "inf" or r == "-inf" or r == "nan")
    return _math.isfinite(x)


def sym_isinf(x):
    if _isinstance(x, SymFloat):
        r = SymStr.mk(float_repr(SymStr.of(x.text)))
        return bool(r == "inf" or r == "-inf")
    return _math.isinf(x)


def sym_isnan(x):
    if _isinstance(x, SymFloat):
        return bool(SymStr.mk(float_repr(SymStr.of(x.text))) == "nan")
    return _math.isnan(x)


class MathShim:
    """stands in for the math module inside the instrumented pvl modules"""

    def __getattr__(self, n):
        return getattr(_math, n)

    isfinite = staticmethod(sym_isfinite)
    isinf = staticmethod(sym_isinf)
    isnan = staticmethod(sym_isnan)


def sym_isinstance(x, t):
    ts = t if _isinstance(t, tuple) else (t,)
    flat = []
    for tt in ts:
        if _isinstance(tt, tuple):
            flat.extend(tt)
        else:
            flat.append(tt)
    ts = tuple(_norm_cls(tt) for tt in flat)
    # a proxy is an instance of whatever the class it stands for is a subclass of (abstract base classes such as
    # numbers.Number or collections.abc.Hashable included)
    real = None
    if _isinstance(x, SymStr):
        if any(_isinstance(tt, type) and _isinstance(x, tt) for tt in ts):      # SymToken is-a Token
            return True
        real = builtins.str
    elif _isinstance(x, SymBool):
        real = builtins.bool
    elif _isinstance(x, SymInt):
        real = builtins.int
    elif _isinstance(x, SymFloat):
        real = builtins.float
    elif _isinstance(x, SymDatetime):
        real = _dt.datetime
    elif _isinstance(x, SymDate):
        real = _dt.date
    elif _isinstance(x, SymTime):
        real = _dt.time
    elif _isinstance(x, SymTimedelta):
        real = _dt.timedelta
    elif _isinstance(x, SymTz):
        real = _dt.timezone
    elif _isinstance(x, SymSet):
        real = builtins.frozenset if x.frozen else builtins.set
    if real is not None:
        return any(_isinstance(tt, type) and issubclass(real, tt) for tt in ts)
    return _isinstance(x, tuple(tt for tt in ts if _isinstance(tt, type)))


def sym_any(it):
    vals = list(it)
    if builtins.all(_isinstance(v, bool) for v in vals):
        return builtins.any(vals)
    if builtins.all(_isinstance(v, (bool, SymBool)) for v in vals):
        return mkbool(zor([B(v) for v in vals]))
    return builtins.any(vals)


def sym_all(it):
    vals = list(it)
    if builtins.all(_isinstance(v, bool) for v in vals):
        return builtins.all(vals)
    if builtins.all(_isinstance(v, (bool, SymBool)) for v in vals):
        return mkbool(zand([B(v) for v in vals]))
    return builtins.all(vals)


# --------------------------------------------------------------------------
# sets with symbolic members (parse_set builds frozenset / set of decoded values)
def _is_sym(v):
    if _isinstance(v, (SymStr, SymInt, SymFloat, SymBool, SymDate, SymTime, SymSet)):
        return True
    if _isinstance(v, (list, tuple)):
        return builtins.any(_is_sym(x) for x in v)
    return False


def sym_value_eq(a, b):
    """python '==' between two decoded values -> python bool or z3 Bool"""
    if _isinstance(a, (list, tuple)) and _isinstance(b, (list, tuple)) and type(a) is type(b):
        if len(a) != len(b):
            return False
        return zand([sym_value_eq(x, y) for x, y in zip(a, b)])
    r = a == b
    if r is NotImplemented:
        return False
    return B(r)


class SymSet:
    """a set some of whose members are symbolic: an element list without
    duplicates, where 'duplicate' was decided by forking on equality"""

    def __init__(self, items, frozen):
        self.frozen = frozen
        self.elems = []
        ctx = Ctx.cur
        for v in items:
            dup = False
            for w in self.elems:
                if ctx.decide_b(sym_value_eq(v, w)):
                    dup = True
                    break
            if not dup:
                self.elems.append(v)

    def __iter__(self):
        return iter(self.elems)

    def __len__(self):
        return len(self.elems)

    def __contains__(self, v):
        return Ctx.cur.decide_b(zor([sym_value_eq(v, w) for w in self.elems]))

    def __hash__(self):
        raise Unsupported("hash of a set with symbolic members")

    def __concretize__(self, m):
        vals = [concretize(v, m) for v in self.elems]
        return frozenset(vals) if self.frozen else set(vals)

    def __repr__(self):
        return "SymSet(%r)" % (self.elems,)


def sym_frozenset(it=()):
    vals = list(it)
    if builtins.any(_is_sym(v) for v in vals):
        return SymSet(vals, True)
    return builtins.frozenset(vals)


def sym_set(it=()):
    vals = list(it)
    if builtins.any(_is_sym(v) for v in vals):
        return SymSet(vals, False)
    return builtins.set(vals)


# --------------------------------------------------------------------------
# helpers the AST instrumenter calls
def __sym_in__(a, b):
    if _isinstance(b, SymStr):
        return mkbool(b.containsz(a))
    if _isinstance(b, SymSet):
        return b.__contains__(a)
    if _isinstance(a, SymStr):
        if _isinstance(b, str):
            return mkbool(SymStr.of(b).containsz(a))
        if _isinstance(b, dict):
            b = list(b.keys())
        if _isinstance(b, (tuple, list, set, frozenset)):
            alts = []
            singles = []
            for x in b:
                if _isinstance(x, str) and len(x) == 1:
                    singles.append(x)
                elif _isinstance(x, (str, SymStr)):
                    alts.append(a.eqz(x))
            if singles and len(a.cs) == 1:
                alts.append(ch_in(a.cs[0], _single_ranges(tuple(singles))))
            return mkbool(zor(alts))
        raise Unsupported("symbolic str in %s" % type(b).__name__)
    if _isinstance(a, SymInt) and _isinstance(b, range):
        if len(b) == 0:
            return False
        lo, hi, st = (b[0], b[-1], b.step) if b.step > 0 else (b[-1], b[0], -b.step)
        conds = [a.z >= lo, a.z <= hi]
        if st != 1:
            conds.append((a.z - lo) % st == 0)
        return mkbool(z3.And(conds))
    if _isinstance(a, (SymInt, SymFloat)):
        if _isinstance(b, (tuple, list, set, frozenset)):
            return mkbool(zor([B(a == x) for x in b]))
        raise Unsupported("symbolic number in %s" % type(b).__name__)
    if _isinstance(b, (tuple, list)) and builtins.any(_isinstance(x, (SymStr, SymInt)) for x in b):
        return mkbool(zor([B(x == a) for x in b]))
    return a in b


_sr_cache = {}


def _single_ranges(chars):
    r = _sr_cache.get(chars)
    if r is None:
        from .core import chars_to_ranges
        r = _sr_cache[chars] = chars_to_ranges(chars)
    return r


def __sym_getitem__(obj, key):
    if _isinstance(obj, dict) and _isinstance(key, SymStr) and not _isinstance(obj, SymStr):
        if type(obj).__getitem__ is dict.__getitem__:
            ctx = Ctx.cur
            for k, v in obj.items():
                if _isinstance(k, (str, SymStr)) and ctx.decide_b(key.eqz(k)):
                    return v
            raise KeyError("<symbolic key>")
    return obj[key]


def _fmt_value(v, spec, conv):
    if conv in (114, 97):      # !r / !a
        return sym_repr(v)
    if _isinstance(spec, SymStr):
        raise Unsupported("symbolic format spec")
    if _isinstance(v, (SymStr, SymInt, SymDate, SymTime, SymTimedelta)):
        return v.__format__(spec)
    if _isinstance(v, SymFloat):
        if spec:
            raise Unsupported("format spec on SymFloat")
        return SymStr.of(v.text)
    if _isinstance(v, (SymBool, SymBytes, SymSet)):
        return "<sym>"
    if conv == 115 or _isinstance(v, BaseException):
        v = sym_str(v)
        if _isinstance(v, SymStr):
            return v.__format__(spec)
    return builtins.format(v, spec)


def __sym_fstr__(*parts):
    out = []
    sym = False
    for p in parts:
        if _isinstance(p, tuple):
            v, spec, conv = p
            r = _fmt_value(v, spec, conv)
        else:
            r = p
        if _isinstance(r, SymStr):
            sym = True
            out.extend(r.cs)
        else:
            out.extend(r)
    return SymStr.mk(out) if sym else "".join(out)


def __sym_join__(sep, items):
    if not _isinstance(sep, (str, SymStr)):
        return sep.join(items)
    items = list(items)
    if _isinstance(sep, str) and builtins.all(_isinstance(i, str) for i in items):
        return sep.join(items)
    out = []
    sepcs = SymStr.of(sep).cs
    for k, it in enumerate(items):
        if k:
            out.extend(sepcs)
        if not _isinstance(it, (str, SymStr)):
            raise TypeError("sequence item %d: expected str instance" % k)
        out.extend(SymStr.of(it).cs)
    return SymStr.mk(out)


def __sym_format__(fmt, *args, **kw):
    if not _isinstance(fmt, (str, SymStr)):
        return fmt.format(*args, **kw)
    allv = list(args) + list(kw.values())
    if _isinstance(fmt, str) and not builtins.any(_is_sym(a) or _isinstance(a, (SymTimedelta, SymBytes)) for a in allv):
        return fmt.format(*args, **kw)
    if not _isinstance(fmt, str):
        raise Unsupported("symbolic format template")
    out = []
    auto = 0
    for lit, field, spec, conv in _string.Formatter().parse(fmt):
        out.extend(lit)
        if field is None:
            continue
        if "{" in (spec or ""):
            raise Unsupported("nested format spec")
        if field == "":
            v = args[auto]
            auto += 1
        elif field.isdigit():
            v = args[builtins.int(field)]
        elif field.isidentifier():
            v = kw[field]
        else:
            raise Unsupported("format field %r" % field)
        r = _fmt_value(v, spec or "", builtins.ord(conv) if conv else -1)
        out.extend(r.cs if _isinstance(r, SymStr) else r)
    return SymStr.mk(out)


# --------------------------------------------------------------------------
# dates and times
def _zi(x):
    return I(x) if _isinstance(x, (builtins.int, SymInt)) else x


def _leap(y):
    return z3.And(y % 4 == 0, z3.Or(y % 100 != 0, y % 400 == 0))


_CUM = (0, 31, 59, 90, 120, 151, 181, 212, 243, 273, 304, 334, 365)


def days_in_month(y, mo):
    """z3 term"""
    t = z3.IntVal(31)
    for k, d in ((4, 30), (6, 30), (9, 30), (11, 30)):
        t = z3.If(mo == k, z3.IntVal(d), t)
    t = z3.If(mo == 2, z3.If(_leap(y), z3.IntVal(29), z3.IntVal(28)), t)
    return t


def doy_of(y, mo, d):
    """day of year term of a valid date"""
    t = z3.IntVal(0)
    for k in range(1, 13):
        t = z3.If(mo == k, z3.IntVal(_CUM[k - 1]), t)
    return t + d + z3.If(z3.And(mo > 2, _leap(y)), 1, 0)


def _feq(x, y):
    if _isinstance(x, builtins.int) and _isinstance(y, builtins.int):
        return x == y
    return _zi(x) == _zi(y)


def _fields_eq(a, b, names):
    return zand([_feq(getattr(a, n), getattr(b, n)) for n in names])


class SymTimedelta:
    """a whole number of minutes (the only time deltas pvl manipulates are zone offsets)"""
    __slots__ = ("minutes",)

    def __init__(self, minutes):
        self.minutes = minutes      # int | SymInt

    def __eq__(self, o):
        if _isinstance(o, SymTimedelta):
            return mkbool(_zi(self.minutes) == _zi(o.minutes))
        if _isinstance(o, _dt.timedelta):
            if o.microseconds or o.seconds % 60:
                return False
            return mkbool(_zi(self.minutes) == (o.days * 1440 + o.seconds // 60))
        return False

    def __ne__(self, o):
        r = self.__eq__(o)
        return (not r) if _isinstance(r, bool) else ~r

    def __bool__(self):
        m = self.minutes
        return (m != 0) if _isinstance(m, builtins.int) else Ctx.cur.decide(_zi(m) != 0)

    def __neg__(self):
        return SymTimedelta(-self.minutes)

    def __mul__(self, k):
        if _isinstance(k, builtins.int) and not _isinstance(k, bool):
            return SymTimedelta(self.minutes * k)
        return NotImplemented
    __rmul__ = __mul__

    def __hash__(self):
        raise Unsupported("hash of SymTimedelta")

    def _cmp(self, o, f):
        if _isinstance(o, _dt.timedelta):
            if o.microseconds or o.seconds % 60:
                raise Unsupported("timedelta comparison with sub-minute value")
            return mkbool(f(_zi(self.minutes), z3.IntVal(o.days * 1440 + o.seconds // 60)))
        if _isinstance(o, SymTimedelta):
            return mkbool(f(_zi(self.minutes), _zi(o.minutes)))
        return NotImplemented

    def __lt__(self, o): return self._cmp(o, lambda a, b: a < b)
    def __le__(self, o): return self._cmp(o, lambda a, b: a <= b)
    def __gt__(self, o): return self._cmp(o, lambda a, b: a > b)
    def __ge__(self, o): return self._cmp(o, lambda a, b: a >= b)

    def __abs__(self):
        return SymTimedelta(abs(self.minutes))

    def total_seconds(self):
        return self.minutes * 60

    @property
    def days(self):
        return self.minutes // 1440

    @property
    def seconds(self):
        return (self.minutes % 1440) * 60

    @property
    def microseconds(self):
        return 0

    def __str__(self):
        # CPython: days = floor(total / 1 day), 0 <= seconds < 86400
        ctx = Ctx.cur
        m = self.minutes
        if _isinstance(m, builtins.int):
            return builtins.str(_dt.timedelta(minutes=m))
        days = m // 1440
        rem = m % 1440
        hh, mm = rem // 60, rem % 60
        out = []
        dd = builtins.int(days)           # forks over the (few) day counts
        if dd:
            out.extend("%d day%s, " % (dd, "" if abs(dd) == 1 else "s"))
        out.extend(SymStr.of(format_int(hh, "")).cs if _isinstance(hh, SymInt) else builtins.str(hh))
        out.append(":")
        out.extend(SymStr.of(format_int(mm, "02")).cs if _isinstance(mm, SymInt) else "%02d" % mm)
        out.extend(":00")
        return SymStr.mk(out)

    def __format__(self, spec):
        if spec:
            raise Unsupported("timedelta format spec")
        return self.__str__()

    def __concretize__(self, m):
        return _dt.timedelta(minutes=concretize(self.minutes, m))

    def __repr__(self):
        return "SymTimedelta(%r)" % (self.minutes,)


def sym_timedelta(days=0, seconds=0, microseconds=0, milliseconds=0, minutes=0, hours=0, weeks=0):
    args = (days, seconds, microseconds, milliseconds, minutes, hours, weeks)
    if not builtins.any(_isinstance(a, SymInt) for a in args):
        return _dt.timedelta(*args)
    if builtins.any(_isinstance(a, SymInt) for a in (seconds, microseconds, milliseconds)) or seconds or microseconds \
            or milliseconds:
        raise Unsupported("symbolic timedelta with sub-minute parts")
    return SymTimedelta(days * 1440 + weeks * 10080 + hours * 60 + minutes)


class SymTz:
    """datetime.timezone with a symbolic whole-minute offset"""
    __slots__ = ("offset",)

    def __init__(self, offset):
        self.offset = offset       # SymTimedelta

    def utcoffset(self, dt=None):
        return self.offset

    def __eq__(self, o):
        if _isinstance(o, SymTz):
            return self.offset == o.offset
        if _isinstance(o, _dt.timezone):
            return self.offset == o.utcoffset(None)
        return False

    def __hash__(self):
        raise Unsupported("hash of SymTz")

    def __concretize__(self, m):
        return _dt.timezone(concretize(self.offset, m))

    def __repr__(self):
        return "SymTz(%r)" % (self.offset,)


class Zone(_dt.tzinfo):
    """a tzinfo whose offset depends on the date (zoneinfo, dateutil, pytz): utcoffset(None) is None, as the
    datetime documentation prescribes for such classes; for any datetime it is the given whole-minute offset"""

    def __init__(self, minutes):
        self.minutes = minutes

    def utcoffset(self, dt):
        return None if dt is None else _dt.timedelta(minutes=self.minutes)

    def dst(self, dt):
        return None

    def tzname(self, dt):
        return "Zone%+d" % self.minutes

    def __repr__(self):
        return "Zone(%d)" % self.minutes


class SymZone:
    """Zone with a symbolic offset"""
    __slots__ = ("offset",)

    def __init__(self, offset):
        self.offset = offset       # SymTimedelta

    def utcoffset(self, dt):
        return None if dt is None else self.offset

    def dst(self, dt):
        return None

    def __eq__(self, o):
        return self is o

    def __hash__(self):
        raise Unsupported("hash of SymZone")

    def __concretize__(self, m):
        return Zone(concretize(self.offset.minutes, m))

    def __repr__(self):
        return "SymZone(%r)" % (self.offset,)


class _TimezoneShimMeta(type):
    def __instancecheck__(cls, x):
        return _isinstance(x, (_dt.timezone, SymTz))


class TimezoneShim(metaclass=_TimezoneShimMeta):
    utc = _dt.timezone.utc
    min = _dt.timezone.min
    max = _dt.timezone.max

    def __new__(cls, offset, name=None):
        if _isinstance(offset, SymTimedelta):
            if _isinstance(offset.minutes, builtins.int):
                return _dt.timezone(_dt.timedelta(minutes=offset.minutes))
            m = _zi(offset.minutes)
            if not Ctx.cur.decide(z3.And(m > -1440, m < 1440)):
                raise ValueError("offset must be a timedelta strictly between -timedelta(hours=24) and "
                                 "timedelta(hours=24) [symbolic]")
            return SymTz(offset)
        return _dt.timezone(offset) if name is None else _dt.timezone(offset, name)


def _tz_offset(tz, dt=None):
    """utcoffset of a tzinfo-like (for the datetime dt, None for a time): None | timedelta | SymTimedelta"""
    if tz is None:
        return None
    if _isinstance(tz, _dt.timezone):
        return tz.utcoffset(None)          # fixed offset; the C type refuses a proxy as dt
    if _isinstance(tz, Zone):
        return None if dt is None else _dt.timedelta(minutes=tz.minutes)
    return tz.utcoffset(dt)


def _pad(v, w):
    if _isinstance(v, builtins.int):
        return list(("%0" + builtins.str(w) + "d") % v)
    return list(SymStr.of(format_int(v, "0%d" % w)).cs)


def _strftime(obj, fmt):
    if _isinstance(fmt, SymStr):
        raise Unsupported("symbolic strftime format")
    out = []
    i = 0
    while i < len(fmt):
        ch = fmt[i]
        if ch != "%":
            out.append(ch)
            i += 1
            continue
        d = fmt[i + 1:i + 2]
        i += 2
        if d == "Y":
            # glibc strftime does not zero pad years below 1000 (as on this platform)
            y = obj.year
            out.extend(builtins.str(y) if _isinstance(y, builtins.int) else SymStr.of(format_int(y, "")).cs)
        elif d == "m":
            out.extend(_pad(obj.month, 2))
        elif d == "d":
            out.extend(_pad(obj.day, 2))
        elif d == "H":
            out.extend(_pad(obj.hour, 2))
        elif d == "M":
            out.extend(_pad(obj.minute, 2))
        elif d == "S":
            out.extend(_pad(obj.second, 2))
        elif d == "f":
            out.extend(_pad(obj.microsecond, 6))
        elif d == "j":
            y, mo, dd = _zi(obj.year), _zi(obj.month), _zi(obj.day)
            out.extend(_pad(mkint(doy_of(y, mo, dd)), 3))
        elif d == "%":
            out.append("%")
        else:
            raise Unsupported("strftime directive %%%s" % d)
    return SymStr.mk(out)


def _iso_time(t):
    """HH:MM:SS[.ffffff][+HH:MM] as CPython's time/datetime.isoformat() writes it"""
    ctx = Ctx.cur
    out = _pad(t.hour, 2) + [":"] + _pad(t.minute, 2) + [":"] + _pad(t.second, 2)
    us = t.microsecond
    if (us != 0) if _isinstance(us, builtins.int) else ctx.decide(_zi(us) != 0):
        out += ["."] + _pad(us, 6)
    off = t.utcoffset()
    if off is not None:
        if _isinstance(off, _dt.timedelta):
            mins = builtins.int(off.total_seconds() // 60)
        else:
            mins = off.minutes
        neg = (mins < 0) if _isinstance(mins, builtins.int) else ctx.decide(_zi(mins) < 0)
        a = -mins if neg else mins
        out += ["-" if neg else "+"] + _pad(a // 60, 2) + [":"] + _pad(a % 60, 2)
    return out


class SymDate:
    """datetime.date with symbolic fields (assumed a valid calendar date)"""
    kind = "date"

    def __init__(self, year, month, day):
        self.year, self.month, self.day = year, month, day

    def __format__(self, spec):
        if spec == "":
            return self.__str__()
        return _strftime(self, spec)

    def strftime(self, fmt):
        return _strftime(self, fmt)

    def isoformat(self):
        return SymStr.mk(_pad(self.year, 4) + ["-"] + _pad(self.month, 2) + ["-"] + _pad(self.day, 2))

    def __str__(self):
        return self.isoformat()

    def replace(self, **kw):
        return type(self)(**{**self._fields(), **kw})

    def _fields(self):
        return dict(year=self.year, month=self.month, day=self.day)

    def eqz(self, o):
        if not _isinstance(o, (SymDate, _dt.date)) or _isinstance(o, (SymDatetime, _dt.datetime)):
            return False
        return _fields_eq(self, o, ("year", "month", "day"))

    def __eq__(self, o):
        return mkbool(self.eqz(o))

    def __ne__(self, o):
        return mkbool(znot(self.eqz(o)))

    def __hash__(self):
        raise Unsupported("hash of SymDate")

    def __concretize__(self, m):
        return _dt.date(*[concretize(x, m) for x in (self.year, self.month, self.day)])

    def __repr__(self):
        return "SymDate(%r,%r,%r)" % (self.year, self.month, self.day)


class SymTime:
    kind = "time"

    def __init__(self, hour=0, minute=0, second=0, microsecond=0, tzinfo=None):
        self.hour, self.minute, self.second, self.microsecond, self.tzinfo = hour, minute, second, microsecond, tzinfo

    def utcoffset(self):
        return _tz_offset(self.tzinfo)

    def _fields(self):
        return dict(hour=self.hour, minute=self.minute, second=self.second, microsecond=self.microsecond,
                    tzinfo=self.tzinfo)

    def replace(self, **kw):
        return type(self)(**{**self._fields(), **kw})

    def __format__(self, spec):
        if spec == "":
            return self.__str__()
        return _strftime(self, spec)

    def strftime(self, fmt):
        return _strftime(self, fmt)

    def __str__(self):
        return self.isoformat()

    def isoformat(self, timespec="auto"):
        if timespec != "auto":
            raise Unsupported("isoformat timespec")
        return SymStr.mk(_iso_time(self))

    def eqz(self, o):
        """same fields and same zone meaning (naive / equal offsets)"""
        if not _isinstance(o, (SymTime, _dt.time)):
            return False
        return zand([_fields_eq(self, o, ("hour", "minute", "second", "microsecond")),
                     tz_eqz(self.tzinfo, o.tzinfo)])

    def __eq__(self, o):
        return mkbool(self.eqz(o))

    def __ne__(self, o):
        return mkbool(znot(self.eqz(o)))

    def __hash__(self):
        raise Unsupported("hash of SymTime")

    def __concretize__(self, m):
        return _dt.time(*[concretize(x, m) for x in (self.hour, self.minute, self.second, self.microsecond)],
                        tzinfo=concretize(self.tzinfo, m))

    def __repr__(self):
        return "SymTime(%r,%r,%r,%r,%r)" % (self.hour, self.minute, self.second, self.microsecond, self.tzinfo)


def tz_eqz(a, b):
    if a is None or b is None:
        return a is None and b is None
    oa, ob = _tz_offset(a), _tz_offset(b)
    r = oa == ob
    return B(r)


class SymDatetime(SymDate):
    kind = "datetime"

    def __init__(self, year, month, day, hour=0, minute=0, second=0, microsecond=0, tzinfo=None):
        SymDate.__init__(self, year, month, day)
        self.hour, self.minute, self.second, self.microsecond, self.tzinfo = hour, minute, second, microsecond, tzinfo

    def _fields(self):
        return dict(year=self.year, month=self.month, day=self.day, hour=self.hour, minute=self.minute,
                    second=self.second, microsecond=self.microsecond, tzinfo=self.tzinfo)

    def date(self):
        return SymDate(self.year, self.month, self.day)

    def time(self):
        return SymTime(self.hour, self.minute, self.second, self.microsecond)

    def timetz(self):
        return SymTime(self.hour, self.minute, self.second, self.microsecond, self.tzinfo)

    def utcoffset(self):
        return _tz_offset(self.tzinfo, self)

    def isoformat(self, sep="T", timespec="auto"):
        if timespec != "auto":
            raise Unsupported("isoformat timespec")
        return SymStr.mk(_pad(self.year, 4) + ["-"] + _pad(self.month, 2) + ["-"] + _pad(self.day, 2) + [sep]
                         + _iso_time(self))

    def __str__(self):
        return self.isoformat(sep=" ")

    def astimezone(self, tz=None):
        raise Unsupported("astimezone of a symbolic datetime")

    def eqz(self, o):
        if not _isinstance(o, (SymDatetime, _dt.datetime)):
            return False
        return zand([_fields_eq(self, o, ("year", "month", "day", "hour", "minute", "second", "microsecond")),
                     tz_eqz(self.tzinfo, o.tzinfo)])

    def __hash__(self):
        raise Unsupported("hash of SymDatetime")

    def __concretize__(self, m):
        return _dt.datetime(*[concretize(x, m) for x in (self.year, self.month, self.day, self.hour, self.minute,
                                                         self.second, self.microsecond)],
                            tzinfo=concretize(self.tzinfo, m))

    def __repr__(self):
        return "SymDatetime(%r)" % (self._fields(),)


_TRE = None
_fmt_cache = {}
_DIRECTIVES = {"Y": "year", "m": "month", "d": "day", "H": "hour", "M": "minute", "S": "second", "f": "f", "j": "j"}


def sym_strptime(s, fmt):
    """model of datetime.datetime.strptime for the directives Y m d j H M S f"""
    global _TRE
    if _isinstance(s, SymStr) and s.is_concrete():
        s = s.concrete()
    if _isinstance(s, str):
        return _dt.datetime.strptime(s, fmt)
    if not _isinstance(s, SymStr):
        raise TypeError("strptime() argument 1 must be str")
    if fmt not in _fmt_cache:
        if _TRE is None:
            _TRE = _strptime.TimeRE()
        for d in _re.findall(r"%(.)", fmt):
            if d not in _DIRECTIVES:
                raise Unsupported("strptime directive %%%s" % d)
        _fmt_cache[fmt] = rx.sym_compile(_TRE.pattern(fmt), _re.IGNORECASE)
    pat = _fmt_cache[fmt]
    ctx = Ctx.cur
    n = len(s.cs)
    mt = pat._mt(s)
    ends = mt.ends(pat.nodes, 0)
    if not ctx.decide_b(zor(list(ends.values()))):
        raise ValueError("time data does not match format [symbolic]")
    # re.match semantics: the FIRST alternative in backtracking priority that matches at all is the
    # match; "unconverted data remains" if it does not end at the end of the string.  Instead of
    # forking on which alternative that is, the fields are merged into if-then-else terms.
    alts = mt.altlist(pat.nodes, 0)
    names = pat.names
    full = False
    merged = {}
    for e, cond, g in reversed(alts):
        if cond is False:
            continue
        if e != n:
            full = False if cond is True else zand([znot(cond), full])
            if cond is True:
                merged = {}
            continue
        vals = {}
        for d in ("Y", "m", "d", "H", "M", "S", "f", "j"):
            if d in names and names[d] in g:
                a, b = g[names[d]]
                digits = s.cs[a:b]
                if d == "f":
                    digits = tuple(digits) + tuple("0" * (6 - len(digits)))
                v = 0
                for c in digits:
                    ok, dv = _digit_value(c, 10)
                    v = v * 10 + dv
                vals[d] = v
        if cond is True:
            full, merged = True, vals
        else:
            full = zor([cond, full]) if full is not False else cond
            merged = {d: (z3.If(cond, _zi(v), _zi(merged[d])) if d in merged else v) for d, v in vals.items()}
    if not ctx.decide_b(full):
        raise ValueError("unconverted data remains [symbolic]")
    gd = merged
    year, month, day, hour, minute, second, us = 1900, 1, 1, 0, 0, 0, 0
    mk = lambda v: v if _isinstance(v, builtins.int) else mkint(v)
    if "Y" in gd:
        year = mk(gd["Y"])
    if "m" in gd:
        month = mk(gd["m"])
    if "d" in gd:
        day = mk(gd["d"])
    if "H" in gd:
        hour = mk(gd["H"])
    if "M" in gd:
        minute = mk(gd["M"])
    if "S" in gd:
        second = mk(gd["S"])
    if "f" in gd:
        us = mk(gd["f"])
    yz = _zi(year)
    if not ctx.decide_b(B(mkbool(z3.And(yz >= 1, yz <= 9999)))):
        raise ValueError("year out of range [symbolic]")
    if "j" in gd:
        jul = _zi(mk(gd["j"]))
        leap = _leap(yz)
        # fromordinal(julian - 1 + ordinal(year, 1, 1)): day 366 of a common year rolls into the next year
        if ctx.decide_b(B(mkbool(z3.And(jul == 366, z3.Not(leap))))):
            if ctx.decide_b(B(mkbool(yz == 9999))):
                raise ValueError("ordinal out of range [symbolic]")
            year, month, day = mkint(yz + 1), 1, 1
        else:
            mo = z3.IntVal(1)
            dd = jul
            for k in range(2, 13):
                start = z3.IntVal(_CUM[k - 1]) + (z3.If(leap, 1, 0) if k > 2 else 0)
                mo = z3.If(jul > start, z3.IntVal(k), mo)
                dd = z3.If(jul > start, jul - start, dd)
            month, day = mkint(mo), mkint(dd)
    else:
        moz, dz = _zi(month), _zi(day)
        ok = z3.And(moz >= 1, moz <= 12, dz >= 1, dz <= days_in_month(yz, moz))
        if not ctx.decide_b(B(mkbool(ok))):
            raise ValueError("day is out of range for month [symbolic]")
    if not ctx.decide_b(B(mkbool(_zi(second) <= 59))):
        raise ValueError("second must be in 0..59 [symbolic]")
    return SymDatetime(year, month, day, hour, minute, second, us)


class _DatetimeShimMeta(type):
    def __instancecheck__(cls, x):
        return _isinstance(x, (_dt.datetime, SymDatetime))


class DatetimeShim(metaclass=_DatetimeShimMeta):
    """stands in for the class datetime.datetime"""
    strptime = staticmethod(sym_strptime)
    min = _dt.datetime.min
    max = _dt.datetime.max

    def __new__(cls, *a, **k):
        if builtins.any(_isinstance(x, SymInt) for x in list(a) + list(k.values())):
            return SymDatetime(*a, **k)
        return _dt.datetime(*a, **k)

    now = staticmethod(_dt.datetime.now)
    fromisoformat = staticmethod(_dt.datetime.fromisoformat)


class DatetimeModuleShim:
    """stands in for the module ``datetime`` (pvl.encoder does ``import datetime``)"""
    datetime = DatetimeShim
    date = _dt.date
    time = _dt.time
    timezone = TimezoneShim
    tzinfo = _dt.tzinfo
    timedelta = staticmethod(sym_timedelta)
    MINYEAR = _dt.MINYEAR
    MAXYEAR = _dt.MAXYEAR


DT = DatetimeModuleShim()
