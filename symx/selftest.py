"""symx.selftest - differential validation of the engine's models against CPython.

The symbolic code paths of the proxies are driven with *pinned* symbolic
strings (every character a SymChar whose domain is one code point), so that
exactly the code that runs on symbolic data is exercised, and the result is
compared with what the builtin does on the same concrete string.  Run as one
task of every check; a disagreement is a machinery failure (exit 3).
"""
import itertools
import random
import re
import datetime as _dt

import z3

from .core import Explorer, Ctx, SymStr, SymChar, SymInt, concretize, B, Unsupported
from . import cmodels, rx


def pin(s):
    return SymStr([SymChar(z3.IntVal(ord(c)), ((ord(c), ord(c)),)) for c in s])


def unpin(v):
    return concretize(v, Ctx.cur.model())


def _outcome(fn):
    try:
        return ("ok", fn())
    except (ValueError, TypeError, KeyError, IndexError, OverflowError) as e:
        return ("exc", type(e).__name__ if not isinstance(e, UnicodeError) else "UnicodeError")


class Mismatch(Exception):
    pass


def _cmp(what, args, sym, real):
    if sym[0] == "ok":
        sym = ("ok", unpin(sym[1]))
    if sym[0] == "exc" and real[0] == "exc":
        # ValueError subclasses are equivalent for our purposes
        return
    if sym != real:
        raise Mismatch("%s%r: model %r, CPython %r" % (what, args, sym, real))


def strings(alpha, maxlen):
    for n in range(maxlen + 1):
        for t in itertools.product(alpha, repeat=n):
            yield "".join(t)


def test_int(count):
    alpha = ["0", "1", "9", "a", "F", "x", "b", "_", "+", "-", " ", "\x1f", "٣", "\n", "z"]
    for s in strings(alpha, 3):
        for base in (10, 2, 16, 12):
            _cmp("int", (s, base), _outcome(lambda: cmodels.sym_int(pin(s), base)), _outcome(lambda: int(s, base)))
            count[0] += 1
    for s in ["0o17", "0O7", "0b_1", "1__0", "1_0", "_1", "1_", " +7 ", "١٢", "\x1c5", "١5\x1f", "0x1f",
              "١٢٣", "+", "-", "", " ", "0_0", "00", "-0", "+-1", "1 1", "１２"]:
        for base in (10, 2, 8, 16, 3, 36):
            _cmp("int", (s, base), _outcome(lambda: cmodels.sym_int(pin(s), base)), _outcome(lambda: int(s, base)))
            count[0] += 1


def test_float(count):
    alpha = ["0", "1", ".", "e", "E", "+", "-", "_", " ", "\x1f", "i", "n", "f", "a", "٣", "İ", "ı", "K", "ſ"]
    rnd = random.Random(1)
    pool = list(strings(alpha, 3)) + ["".join(rnd.choice(alpha) for _ in range(rnd.randint(4, 7))) for _ in range(int(3000 * SCALE))]
    pool += ["inf", "-inf", "+INF", "nan", "NaN", "infinity", "Infinity", "infinit", "1e5", "1E+5", "1e-05", "1.5e3",
             ".5", "5.", "1_0.0_1", "1._5", "1_.5", "e5", "1e", "1e+", " 1.0\n", "\x1f1.0", "١1.5", "1.5\x1f١",
             "0x1p3", "1d5", "--1", "+.5e-3", "infinity ", "nan_", "1 .5", "İnf", "ınf", "İNF", "nan", "ınfınıty"]
    for s in pool:
        def sym():
            r = cmodels.sym_float(pin(s))
            return "float"
        def real():
            float(s)
            return "float"
        _cmp("float", (s,), _outcome(sym), _outcome(real))
        count[0] += 1


def test_strmethods(count):
    rnd = random.Random(2)
    alpha = list(" \t\n\x0b\x0c\r\r\n\x1c\x1d\x1e\x1f\x85\u2028\u2029\xa0abzAZ09_-+.,;=()<>{}'\"*/#ßµİſKÀÿ٠１")
    samples = [""] + ["".join(rnd.choice(alpha) for _ in range(rnd.randint(1, 6))) for _ in range(int(700 * SCALE))]
    ops = [
        ("casefold", lambda s: s.casefold()), ("lower", lambda s: s.lower()), ("upper", lambda s: s.upper()),
        ("strip", lambda s: s.strip()), ("lstrip", lambda s: s.lstrip()), ("rstrip", lambda s: s.rstrip()),
        ("strip_ws", lambda s: s.strip(" \t\n\r\x0b\x0c")), ("strip_lt", lambda s: s.strip("<>")),
        ("split", lambda s: s.split()), ("split_sp", lambda s: s.split(" ")), ("split_colon", lambda s: s.split(":")),
        ("replace", lambda s: s.replace("\t", "    ")), ("replace1", lambda s: s.replace("\n", " ")),
        ("replace_count1", lambda s: s.replace(".", "", 1)), ("replace_count2", lambda s: s.replace("a", "bb", 2)),
        ("replace_count0", lambda s: s.replace(" ", "_", 0)),
        ("splitlines", lambda s: s.splitlines()), ("splitlines_keep", lambda s: s.splitlines(True)),
        ("partition", lambda s: list(s.partition("="))), ("rpartition", lambda s: list(s.rpartition("+"))),
        ("isalpha", lambda s: s.isalpha()), ("isdigit", lambda s: s.isdigit()), ("isprintable", lambda s: s.isprintable()),
        ("isspace", lambda s: s.isspace()), ("isalnum", lambda s: s.isalnum()),
        ("startswith", lambda s: s.startswith(("/*", "#"))), ("endswith", lambda s: s.endswith(("*/", "\n"))),
        ("startswith1", lambda s: s.startswith("a", 1)),
        ("contains", lambda s: B(cmodels.__sym_in__("a", s)) if isinstance(s, SymStr) else ("a" in s)),
        ("count", lambda s: s.count("\n")), ("count2", lambda s: s.count("\n", 1, 4)),
        ("find", lambda s: s.find("=")), ("rfind", lambda s: s.rfind("=", 0, 3)), ("rfind2", lambda s: s.rfind("\n")),
        ("ljust", lambda s: s.ljust(5)), ("expandtabs", lambda s: s.expandtabs(8)),
        ("encode_ascii", lambda s: len(s.encode("ascii").decode("ascii")) if isinstance(s, str) else len(s.encode("ascii").decode("ascii"))),
        ("slice", lambda s: s[1:-1]), ("mul", lambda s: s * 2), ("join", lambda s: cmodels.__sym_join__(", ", [s, "x", s])),
        ("format", lambda s: cmodels.__sym_format__("{} = {}", s, "v")),
        ("fstr", lambda s: cmodels.__sym_fstr__("+", (s, "0>2", -1))),
    ]
    for s in samples:
        for name, op in ops:
            _cmp(name, (s,), _outcome(lambda: op(pin(s))), _outcome(lambda: op(s)))
            count[0] += 1


def _regex_inventory():
    from . import load
    pats = []
    g = load.mods()["grammar"]
    for cls in (g.PVLGrammar, g.ODLGrammar, g.OmniGrammar):
        for k, v in vars(cls).items():
            if isinstance(v, rx.SymPattern):
                pats.append((cls.__name__ + "." + k, v.real))
    G = g.PVLGrammar
    fe = "".join(G.format_effectors)
    ws = "".join(G.whitespace)
    extra = [
        r"(?P<dt>.+?)(?P<sign>[+-])(?P<hour>0?[0-9]|1[0-2])(?:%s)?" % G._M_frag.pattern if hasattr(G._M_frag, "pattern") else
        r"(?P<dt>.+?)(?P<sign>[+-])(?P<hour>0?[0-9]|1[0-2])(?:%s)?" % G._M_frag,
        r"-[%s][%s]*" % (fe, ws), r"[%s]+" % ws, r"-[\n\r\f]\s*", r"[\s*/()-]", r"\*\*.+?", r"\*\*-?\d+",
        cmodels._FLOAT_RE, r"(\s+)", r"0(\d+)d?",
    ]
    for p in extra:
        pats.append((p[:20], re.compile(p)))
    import _strptime
    tre = _strptime.TimeRE()
    for fmt in list(G.date_formats) + list(G.time_formats) + list(G.datetime_formats):
        pats.append(("strptime " + fmt, re.compile(tre.pattern(fmt), re.IGNORECASE)))
    return pats


def _literals(pattern):
    """characters mentioned in the pattern, plus a few generic ones"""
    s = set(ch for ch in pattern if ch.isalnum() or ch in "#+-:. TZ_")
    s |= set("0123456789") if "\\d" in pattern or "[0-9" in pattern else set()
    return sorted(s)[:24]


def test_regex(count):
    rnd = random.Random(3)
    base = ["", "2#1#", "+2#0101#", "-8#17#", "16#FF#", "16#+f#", "+16#-f#", "2#", "16#", "1#1#", "2001-01-01",
            "2001-001", "2001-366", "01:02", "01:02:03", "01:02:60", "23:59:60.5Z", "2001-01-01T01:02:60", "1:2",
            "2001-1-1", "01:02:03.123456", "01:02:03.1234567", "2001-01-01T01:02:03Z", "2001-01-01t01:02:03z",
            "01:02:03+1", "01:02:03-12:30", "2001-01-01T01:02:03+05", "x-\n  y", "a  b\n\tc", "m/s**2", "km**-1",
            "a b", " 1.5 ", "1_0.5e+3", "١٢", "0١:00", "2001-01-01T24:00", "99:99", "12:60", "2001-13-01"]
    for name, real in _regex_inventory():
        sp = rx.sym_compile(real)
        alpha = _literals(real.pattern) or list("ab1 ")
        samples = list(base) + ["".join(rnd.choice(alpha) for _ in range(rnd.randint(1, 8))) for _ in range(int(120 * SCALE))]
        for s in samples:
            for meth in ("fullmatch", "match", "search"):
                def sym():
                    m = getattr(sp, meth)(pin(s))
                    if m is None:
                        return None
                    return [m.start(), m.end(), m.groups(), sorted(m.groupdict("").items())]
                def realf():
                    m = getattr(real, meth)(s)
                    if m is None:
                        return None
                    return [m.start(), m.end(), m.groups(), sorted(m.groupdict("").items())]
                _cmp("re." + meth + " " + name, (s,), _outcome(sym), _outcome(lambda: _norm(realf())))
                count[0] += 1
            if real.groups <= 1 and not _can_match_empty(real):
                _cmp("re.sub " + name, (s,), _outcome(lambda: sp.sub("@", pin(s))), _outcome(lambda: real.sub("@", s)))
                _cmp("re.split " + name, (s,), _outcome(lambda: sp.split(pin(s))), _outcome(lambda: real.split(s)))
                _cmp("re.findall " + name, (s,), _outcome(lambda: sp.findall(pin(s))), _outcome(lambda: real.findall(s)))
                count[0] += 3


def _norm(r):
    if r is None:
        return None
    return [r[0], r[1], tuple(r[2]), r[3]]


def _can_match_empty(real):
    return real.fullmatch("") is not None or real.search("") is not None


def test_strptime(count):
    from . import load
    G = load.mods()["grammar"].PVLGrammar
    fmts = list(G.date_formats) + list(G.time_formats) + list(G.datetime_formats)
    dates = ["2001-01-01", "2000-02-29", "1900-02-29", "2001-02-29", "2001-04-31", "0001-01-01", "9999-12-31",
             "0000-01-01", "2001-12-31", "2001-1-1", "2001-13-01", "2001-00-10", "2001-01-00", "2001-01-32",
             "2004-366", "2001-366", "2001-365", "2001-000", "2001-1", "2001-59", "2001-060", "2004-060", "9999-366",
             "9999-365", "2001-367", "٢٠٠١-٠١-٠١", "2001-01- 1", "999-01-01", "02001-01-01"]
    times = ["00:00", "23:59", "24:00", "12:60", "1:2", "01:02:03", "01:02:59", "01:02:60", "01:02:61", "01:02:62",
             "01:02:03.1", "01:02:03.123456", "01:02:03.1234567", "01:02:03.", "1:2:3.4", "01:02:3", "٠١:٠٢", "01:02 "]
    samples = []
    for d in dates:
        samples += [d, d + "Z", d + "z"]
    for t in times:
        samples += [t, t + "Z", t + "z"]
    for d in dates[:12] + dates[14:24]:
        for t in times[:8] + times[10:13]:
            samples += [d + "T" + t, d + "T" + t + "Z", d + "t" + t]
    for s in samples:
        for fmt in fmts:
            def sym():
                r = cmodels.sym_strptime(pin(s), fmt)
                return r
            def real():
                return _dt.datetime.strptime(s, fmt)
            _cmp("strptime", (s, fmt), _outcome(sym), _outcome(real))
            count[0] += 1


def test_float_repr(count):
    rnd = random.Random(5)
    skipped = 0
    pool = ["0.0", ".0", "0.", "2.", ".5", "+1.5", "-0.0", "-.25", "007.500", "1.50", "10.01", "0.001", "0.0001",
            "123456.789", " 3.25 ", "1000000.0", "00.10", "-12.", "0.10"]
    pool += ["".join(rnd.choice("0123456789") for _ in range(rnd.randint(1, 4))) + "." +
             "".join(rnd.choice("0123456789") for _ in range(rnd.randint(0, 4))) for _ in range(300)]
    pool += ["1e5", "1E5", "2e0", "0e3", "5e-1", "1.5e3", "1.5E+3", "-2.50e-2", ".5e1", "5.e2", "12e-3", "1e-4", "1e-5",
             "123.456e2", "123.456e-2", "9e15", "1e16", "00.10e01", "7e-0", "1.e+15", "0.0e5",
             "0.00001", "0.0000123", "-0.000099", "1e-7", "12e-9", "1.5e-15", "1e16", "1e17", "12e16", "-1.25e15", "1.25e18",
             "100000000000000000.0", "120000000000000000000", "0.00001000", "1000000000000000.0", "1200000000000000.0",
             "5e15", "9000000000000000", "1.5e400", "-2e-400", "1e310", "9.99E+999", "-7.25e-345", "1.50E+400", "3e-999", "1.5e-15", "-2.5e-19", "0.0000000000000015", "0.00000000000000012345", "9.9e-11", "1234567890123456.0", "123456789012345600.0",
             "inf", "-inf", "+INF", "Infinity", "-iNfInItY", "nan", "NaN", "-nan", "+nan"]
    pool += ["".join(rnd.choice("0123456789") for _ in range(rnd.randint(1, 3))) + rnd.choice(["", ".", ".5", ".25", ".0"]) +
             rnd.choice("eE") + rnd.choice(["", "+", "-"]) + str(rnd.randint(0, 16)) for _ in range(300)]
    for s in pool:
        def sym():
            return SymStr.mk(cmodels.float_repr(pin(s)))
        try:
            got = ("ok", unpin(sym()))
        except Unsupported:
            Ctx.cur.unsupported = None        # declared outside the model: nothing to compare
            skipped += 1
            continue
        real = ("ok", repr(float(s)))
        if got != real:
            raise Mismatch("float_repr(%r): model %r, CPython %r" % (s, got, real))
        count[0] += 1
    if skipped * 2 > len(pool):
        raise Mismatch("float_repr: the model declined %d of %d texts" % (skipped, len(pool)))


def test_format(count):
    ctx = Ctx.cur
    for v in [0, 5, 9, 10, 99, 100, 999, 1000, 9999, 123456, -1, -12]:
        z = SymInt(z3.IntVal(v) + 0)
        for spec in ("", "d", "02", "02d", "03d", "04d", "06"):
            _cmp("format_int", (v, spec), _outcome(lambda: cmodels.format_int(z, spec)), _outcome(lambda: format(v, spec)))
            count[0] += 1
        _cmp("str(int)", (v,), _outcome(lambda: cmodels.sym_str(z)), _outcome(lambda: str(v)))
    for mnt in [0, 1, 59, 60, 61, 330, 720, 840, 1439, -1, -60, -300, -330, -720, -1439]:
        td = cmodels.SymTimedelta(SymInt(z3.IntVal(mnt) + 0))
        _cmp("str(timedelta)", (mnt,), _outcome(lambda: td.__str__()), _outcome(lambda: str(_dt.timedelta(minutes=mnt))))
        count[0] += 1
    for us in list(range(0, 4000, 250)) + [499, 500, 501, 1499, 1500, 2500, 999499, 999500, 999999]:
        r = cmodels.sym_round(SymInt(z3.IntVal(us) + 0) / 1000)
        _cmp("round(us/1000)", (us,), ("ok", r), ("ok", round(us / 1000)))
        count[0] += 1
    grid = [(1, 1, 1), (999, 12, 31), (2000, 2, 29), (2001, 3, 1), (9999, 12, 31), (1987, 7, 4)]
    tgrid = [(0, 0, 0, 0), (23, 59, 59, 999999), (1, 2, 3, 5000), (1, 2, 0, 0), (1, 2, 3, 0), (12, 30, 0, 100)]
    S = lambda v: SymInt(z3.IntVal(v) + 0)
    for (y, mo, d) in grid:
        sd = cmodels.SymDate(S(y), S(mo), S(d))
        rd = _dt.date(y, mo, d)
        for spec in ("%Y-%m-%d", "%Y-%j", "%m/%d"):
            _cmp("date.format", (y, mo, d, spec), _outcome(lambda: sd.__format__(spec)), _outcome(lambda: format(rd, spec)))
            count[0] += 1
        for (H, M, Sx, us) in tgrid:
            sdt = cmodels.SymDatetime(S(y), S(mo), S(d), S(H), S(M), S(Sx), S(us))
            rdt = _dt.datetime(y, mo, d, H, M, Sx, us)
            for spec in ("%Y-%m-%dT%H:%M:%S.%f", "%H:%M", "%S.%f", "%S"):
                _cmp("datetime.format", (y, mo, d, H, M, Sx, us, spec), _outcome(lambda: sdt.__format__(spec)),
                     _outcome(lambda: format(rdt, spec)))
                count[0] += 1


SCALE = 1.0


def run(scale=1.0):
    """returns the number of comparisons made; raises Mismatch on the first disagreement"""
    global SCALE
    SCALE = scale
    from . import load
    load.install()
    count = [0]
    errors = []

    def path(ctx):
        for t in (test_int, test_float, test_float_repr, test_strmethods, test_regex, test_strptime, test_format):
            t(count)

    ex = Explorer(alphabet="omni", max_steps=10 ** 9)
    out = {}

    def on_path(ctx, res, exc):
        if exc is not None:
            errors.append(exc)

    st = ex.run(path, on_path)
    if errors:
        raise Mismatch("selftest could not run: %r" % (errors[:2],))
    if st["paths"] != 1:
        raise Mismatch("selftest forked (%d paths): a pinned run must be deterministic" % st["paths"])
    return count[0]


if __name__ == "__main__":
    import sys
    import time
    t = time.time()
    n = run()
    print("selftest ok: %d comparisons in %.1fs" % (n, time.time() - t))
