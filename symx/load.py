"""symx.load - load pvl from /repo's working tree through an in-memory AST
instrumenter and bind the proxy-aware builtins/shims (DESIGN.md section 2.2).

Nothing is written to /repo (no byte code either); no pvl function body is
replaced - only *operators* that CPython would execute at the C level on real
``str`` objects are routed through helpers that understand the proxies:

    a in b / a not in b      -> __sym_in__(a, b)
    f"..."                   -> __sym_fstr__(parts...)
    CONST.join(x)            -> __sym_join__(CONST, x)      (any receiver)
    "literal".format(...)    -> __sym_format__("literal", ...)
    obj[key] (loads)         -> __sym_getitem__(obj, key)   (dict lookup with a symbolic key)

A pristine, un-instrumented copy of the same sources is loaded as ``pvl_ref``
for the per-path cross-check against the implementation.
"""
import ast
import builtins
import importlib
import importlib.abc
import importlib.machinery
import importlib.util
import os
import re as _re
import sys
import types
import warnings

from . import cmodels, rx
from .core import SymStr, Unsupported

REPO = os.environ.get("PVL_REPO", "/repo")
SEEN = set()          # qualified names of every instrumented function entered
_installed = {}


class _Tx(ast.NodeTransformer):
    def __init__(self, modname):
        self.modname = modname
        self.stack = []

    def _enter(self, node):
        self.stack.append(node.name)
        self.generic_visit(node)
        self.stack.pop()
        return node

    def visit_ClassDef(self, node):
        return self._enter(node)

    def visit_FunctionDef(self, node):
        qual = self.modname + "." + ".".join(self.stack + [node.name])
        self._enter(node)
        rec = ast.Expr(ast.Call(ast.Attribute(ast.Name("__sym_seen__", ast.Load()), "add", ast.Load()),
                                [ast.Constant(qual)], []))
        # keep a docstring first
        pos = 1 if (node.body and isinstance(node.body[0], ast.Expr) and isinstance(node.body[0].value, ast.Constant)
                    and isinstance(node.body[0].value.value, str)) else 0
        node.body.insert(pos, rec)
        return node

    visit_AsyncFunctionDef = visit_FunctionDef

    def visit_Compare(self, node):
        self.generic_visit(node)
        if len(node.ops) == 1 and isinstance(node.ops[0], (ast.In, ast.NotIn)):
            call = ast.Call(ast.Name("__sym_in__", ast.Load()), [node.left, node.comparators[0]], [])
            if isinstance(node.ops[0], ast.NotIn):
                call = ast.UnaryOp(ast.Not(), call)
            return ast.copy_location(call, node)
        return node

    def visit_JoinedStr(self, node):
        self.generic_visit(node)
        parts = []
        for v in node.values:
            if isinstance(v, ast.FormattedValue):
                spec = v.format_spec if v.format_spec is not None else ast.Constant("")
                parts.append(ast.Tuple([v.value, spec, ast.Constant(v.conversion)], ast.Load()))
            else:
                parts.append(v)
        return ast.copy_location(ast.Call(ast.Name("__sym_fstr__", ast.Load()), parts, []), node)

    def visit_Call(self, node):
        self.generic_visit(node)
        f = node.func
        if isinstance(f, ast.Attribute) and f.attr == "join" and len(node.args) == 1 and not node.keywords \
                and not isinstance(node.args[0], ast.Starred):
            return ast.copy_location(ast.Call(ast.Name("__sym_join__", ast.Load()), [f.value, node.args[0]], []), node)
        if isinstance(f, ast.Attribute) and f.attr == "format" and isinstance(f.value, (ast.Constant, ast.BinOp)):
            return ast.copy_location(
                ast.Call(ast.Name("__sym_format__", ast.Load()), [f.value] + node.args, node.keywords), node)
        return node

    def visit_Subscript(self, node):
        self.generic_visit(node)
        if isinstance(node.ctx, ast.Load) and not isinstance(node.slice, (ast.Slice, ast.Tuple)):
            return ast.copy_location(
                ast.Call(ast.Name("__sym_getitem__", ast.Load()), [node.value, node.slice], []), node)
        return node

    def visit_AnnAssign(self, node):
        # leave annotations alone
        if node.value is not None:
            node.value = self.visit(node.value)
        return node

    def visit_arguments(self, node):
        # defaults are expressions; annotations stay untouched
        node.defaults = [self.visit(d) for d in node.defaults]
        node.kw_defaults = [self.visit(d) if d is not None else None for d in node.kw_defaults]
        return node


def transform(source, path, modname):
    tree = ast.parse(source, path)
    tree = ast.fix_missing_locations(_Tx(modname).visit(tree))
    return tree


class _Loader(importlib.machinery.SourceFileLoader):
    def source_to_code(self, data, path, *, _optimize=-1):
        return compile(transform(data, path, self.name), path, "exec", dont_inherit=True, optimize=_optimize)

    def get_code(self, fullname):
        # never read or write byte code caches
        path = self.get_filename(fullname)
        return self.source_to_code(self.get_data(path), path)


class _Finder(importlib.abc.MetaPathFinder):
    def find_spec(self, name, path, target=None):
        if name == "pvl":
            origin = os.path.join(REPO, "pvl", "__init__.py")
            return importlib.util.spec_from_file_location(
                name, origin, loader=_Loader(name, origin),
                submodule_search_locations=[os.path.join(REPO, "pvl")])
        if name.startswith("pvl."):
            origin = os.path.join(REPO, "pvl", name.split(".", 1)[1].replace(".", os.sep) + ".py")
            if os.path.exists(origin):
                return importlib.util.spec_from_file_location(name, origin, loader=_Loader(name, origin))
        return None


class _RefLoader(importlib.machinery.SourceFileLoader):
    def get_code(self, fullname):
        path = self.get_filename(fullname)
        data = self.get_data(path)
        # the command-line tools import the package absolutely: keep the pristine copy self-contained
        data = data.replace(b"\nimport pvl\n", b"\nimport pvl_ref as pvl\n")
        return compile(data, path, "exec", dont_inherit=True)


class _RefFinder(importlib.abc.MetaPathFinder):
    def find_spec(self, name, path, target=None):
        if name == "pvl_ref":
            origin = os.path.join(REPO, "pvl", "__init__.py")
            return importlib.util.spec_from_file_location(
                name, origin, loader=_RefLoader(name, origin),
                submodule_search_locations=[os.path.join(REPO, "pvl")])
        if name.startswith("pvl_ref."):
            origin = os.path.join(REPO, "pvl", name.split(".", 1)[1].replace(".", os.sep) + ".py")
            if os.path.exists(origin):
                return importlib.util.spec_from_file_location(name, origin, loader=_RefLoader(name, origin))
        return None


PVL_MODULES = ("grammar", "collections", "exceptions", "decoder", "token", "lexer", "parser", "encoder", "new",
               "pvl_validate", "pvl_translate")

_GLOBALS = dict(
    ord=cmodels.sym_ord, chr=cmodels.sym_chr, str=cmodels.sym_str, int=cmodels.sym_int, float=cmodels.sym_float,
    round=cmodels.sym_round, isinstance=cmodels.sym_isinstance, repr=cmodels.sym_repr, any=cmodels.sym_any,
    all=cmodels.sym_all, set=cmodels.sym_set, frozenset=cmodels.sym_frozenset,
)


def _make_symtoken(RealToken):
    class SymToken(SymStr):
        __slots__ = ()

        def __init__(self, content, grammar=None, decoder=None, pos=0):
            SymStr.__init__(self, SymStr.of(content).cs)
            RealToken.__init__(self, content, grammar=grammar, decoder=decoder, pos=pos)

    for k, v in RealToken.__dict__.items():
        if k in ("__new__", "__init__", "__dict__", "__weakref__", "__module__", "__doc__", "__slots__"):
            continue
        if isinstance(v, types.FunctionType):
            if "__class__" in v.__code__.co_freevars:
                closure = tuple(types.CellType(SymToken) if n == "__class__" else c
                                for n, c in zip(v.__code__.co_freevars, v.__closure__))
                nv = types.FunctionType(v.__code__, v.__globals__, v.__name__, v.__defaults__, closure)
                nv.__kwdefaults__ = v.__kwdefaults__
                v = nv
        setattr(SymToken, k, v)
    SymToken.__qualname__ = "SymToken"
    return SymToken


def install():
    """import the instrumented pvl (once per process) and return the package"""
    if _installed:
        return _installed["pvl"]
    sys.dont_write_bytecode = True
    for k in [k for k in sys.modules if k == "pvl" or k.startswith("pvl.")]:
        del sys.modules[k]
    sys.meta_path.insert(0, _Finder())
    sys.meta_path.insert(0, _RefFinder())
    builtins.__sym_in__ = cmodels.__sym_in__
    builtins.__sym_fstr__ = cmodels.__sym_fstr__
    builtins.__sym_join__ = cmodels.__sym_join__
    builtins.__sym_format__ = cmodels.__sym_format__
    builtins.__sym_getitem__ = cmodels.__sym_getitem__
    builtins.__sym_seen__ = SEEN
    with warnings.catch_warnings():
        warnings.simplefilter("ignore")
        pvl = importlib.import_module("pvl")
        mods = {}
        for m in PVL_MODULES[:-2]:
            try:
                mods[m] = importlib.import_module("pvl." + m)
            except ImportError:
                pass
    # proxy-aware builtins in every pvl module
    for name, mod in list(mods.items()) + [("__init__", pvl)]:
        for g, fn in _GLOBALS.items():
            if name == "token" and g == "str":
                continue        # class Token(str) uses str.__new__
            setattr(mod, g, fn)
    # regex: shim module + wrap the compiled patterns stored on the grammar classes
    # (every module: a change under test may start using ``re`` anywhere; patterns compiled at import time sit in
    # module globals or class attributes as real Pattern objects and are wrapped)
    import math as _math
    for m, mod in mods.items():
        # math predicates a change under test may apply to a decoded (symbolic) float
        if getattr(mod, "math", None) is _math:
            mod.math = cmodels.MathShim()
        for nm, fn in (("isfinite", cmodels.sym_isfinite), ("isinf", cmodels.sym_isinf), ("isnan", cmodels.sym_isnan)):
            if getattr(mod, nm, None) is getattr(_math, nm):
                setattr(mod, nm, fn)
        if getattr(mod, "re", None) is _re:
            mod.re = rx.RE
        for k, v in list(vars(mod).items()):
            if isinstance(v, _re.Pattern):
                setattr(mod, k, rx.sym_compile(v))
            elif isinstance(v, type) and getattr(v, "__module__", "") == mod.__name__:
                for k2, v2 in list(vars(v).items()):
                    if isinstance(v2, _re.Pattern):
                        setattr(v, k2, rx.sym_compile(v2))
    # datetime
    dec, enc = mods["decoder"], mods["encoder"]
    if hasattr(dec, "datetime"):
        dec.datetime = cmodels.DatetimeShim
    if hasattr(dec, "timedelta"):
        dec.timedelta = cmodels.sym_timedelta
    if hasattr(dec, "timezone"):
        dec.timezone = cmodels.TimezoneShim
    if hasattr(enc, "datetime"):
        enc.datetime = cmodels.DT
    # textwrap: a private instrumented copy of the stdlib module
    import textwrap as _tw
    src = open(_tw.__file__).read()
    tw = types.ModuleType("symx_textwrap")
    tw.__file__ = _tw.__file__
    exec(compile(transform(src, _tw.__file__, "textwrap"), _tw.__file__, "exec", dont_inherit=True), tw.__dict__)
    for k, v in list(vars(tw.TextWrapper).items()):
        if isinstance(v, _re.Pattern):
            setattr(tw.TextWrapper, k, rx.sym_compile(v))
    for g in ("isinstance", "any", "all"):
        setattr(tw, g, _GLOBALS[g])
    if hasattr(enc, "textwrap"):
        enc.textwrap = tw
    # Token factory
    tokmod = mods["token"]
    RealToken = tokmod.Token
    SymToken = _make_symtoken(RealToken)

    def Token(content, grammar=None, decoder=None, pos=0):
        if isinstance(content, SymStr):
            if content.is_concrete():
                content = content.concrete()
            else:
                return SymToken(content, grammar=grammar, decoder=decoder, pos=pos)
        return RealToken(content, grammar=grammar, decoder=decoder, pos=pos)

    Token.real = RealToken
    Token.sym = SymToken
    for m in ("token", "lexer", "parser", "encoder"):
        if hasattr(mods[m], "Token"):
            mods[m].Token = Token
    # the command-line tools create module-level decoder/encoder instances at import: they must see
    # the proxy-aware builtins (real_cls = float is captured when a decoder is constructed)
    with warnings.catch_warnings():
        warnings.simplefilter("ignore")
        for m in PVL_MODULES[-2:]:
            try:
                mods[m] = importlib.import_module("pvl." + m)
                for g, fn in _GLOBALS.items():
                    setattr(mods[m], g, fn)
            except ImportError:
                pass
    with warnings.catch_warnings():
        warnings.simplefilter("ignore")
        ref = importlib.import_module("pvl_ref")
        for m in PVL_MODULES[:-3]:
            importlib.import_module("pvl_ref." + m)
        try:
            importlib.import_module("pvl_ref.new")
        except ImportError:
            pass
    _installed.update(pvl=pvl, ref=ref, mods=mods, textwrap=tw, Token=Token, RealToken=RealToken, SymToken=SymToken)
    warnings.simplefilter("ignore")
    return pvl


def ref():
    install()
    return _installed["ref"]


def mods():
    install()
    return _installed["mods"]
