"""symx.framework - obligations, workers, aggregation, replay, evidence.

A *harness* describes one obligation: how to make symbolic inputs, the class
predicates of the known findings, and the property itself as ordinary Python
that runs unchanged on proxies (instrumented pvl), on concrete values against a
pristine copy of the same sources (per-path cross-check) and in a fresh
un-instrumented interpreter (replay).
"""
import collections
import importlib
import itertools
import json
import os
import signal
import subprocess
import sys
import time
import traceback
import hashlib

VERIF = os.path.dirname(os.path.dirname(os.path.abspath(__file__)))
PY = os.path.join(VERIF, ".venv", "bin", "python")
# evidence and replay files go to /verif unless a scratch tree is being exercised (tools/seedcheck.py sets both
# PVL_REPO and SYMX_OUT, so that trying the checks on a seeded change never touches /repo or the committed evidence)
OUT = os.environ.get("SYMX_OUT", VERIF)

EXIT_OK, EXIT_VIOLATION, EXIT_HARNESS = 0, 1, 3
MAX_REPLAYS_PER_OBLIGATION = 2
MAX_REPLAYS = 60


class Outcome:
    __slots__ = ("tag", "ok", "detail")

    def __init__(self, tag, ok=True, detail=None):
        self.tag, self.ok, self.detail = tag, ok, detail


class Lib:
    """the library under a package name: 'pvl' (instrumented in the engine,
    the real one in a replay process) or 'pvl_ref' (pristine copy in the engine)"""

    def __init__(self, pkg):
        self.pkg = pkg
        self.pvl = importlib.import_module(pkg)
        for m in ("grammar", "collections", "exceptions", "decoder", "token", "lexer", "parser", "encoder"):
            setattr(self, m, importlib.import_module(pkg + "." + m))
        try:
            self.new = importlib.import_module(pkg + ".new")
        except ImportError:
            self.new = None

    def tool(self, name):
        return importlib.import_module(self.pkg + "." + name)


class Harness:
    prop = "C00"
    alphabet = "latin"
    shard_bits = 0
    timeout = 150
    max_steps = 400000
    path_seconds = 10
    crosscheck_all = True
    functions = ()
    bounds = ""
    assumptions = ()
    stubs = ()
    allowed_exceptions = ()      # exception classes (by name) prop() lets escape deliberately: none by default
    must_reach = ()              # tags of which at least one must occur (vacuity guard)

    def __init__(self, **kw):
        self.kw = kw
        for k, v in kw.items():
            setattr(self, k, v)

    @property
    def name(self):
        return type(self).__name__ + "(" + ",".join("%s=%s" % (k, self.kw[k]) for k in sorted(self.kw)) + ")"

    def spec(self):
        return (type(self).__module__, type(self).__name__, self.kw)

    def inputs(self, ctx):
        raise NotImplementedError

    def known(self, L, inp):
        return ()

    def prop_fn(self, L, inp):
        raise NotImplementedError


def make(spec):
    mod, cls, kw = spec
    return getattr(importlib.import_module(mod), cls)(**kw)


class _PathTimeout(BaseException):
    pass


def _alarm(sig, frm):
    from .core import BudgetExceeded
    raise BudgetExceeded("path wall-clock limit")


def load_findings():
    p = os.path.join(VERIF, "known_findings.json")
    if not os.path.exists(p):
        return []
    return json.load(open(p)).get("entries", [])


def active_findings(prop):
    return {e["id"]: e for e in load_findings() if e.get("status") == "finding" and prop in e.get("properties", [])}


def run_task(spec, shard, opts):
    """executed in a worker process: explore one obligation (or one shard of it)"""
    t0 = time.time()
    out = dict(spec=list(spec[:2]) + [spec[2]], shard=list(shard), ok=True)
    try:
        out.update(_run_task(spec, shard, opts))
    except BaseException as e:          # noqa: engine failure, reported as harness error
        out["ok"] = False
        out["error"] = "%s: %s\n%s" % (type(e).__name__, e, traceback.format_exc()[-3000:])
    out["wall_s"] = round(time.time() - t0, 3)
    return out


def run_selftest(scale):
    t0 = time.time()
    try:
        from . import selftest
        n = selftest.run(scale)
        return dict(selftest=True, ok=True, comparisons=n, wall_s=round(time.time() - t0, 2))
    except BaseException as e:      # noqa
        return dict(selftest=True, ok=False, error="%s: %s" % (type(e).__name__, e), wall_s=round(time.time() - t0, 2))


def _run_task(spec, shard, opts):
    import z3
    from . import load, codec
    from .core import Explorer, B, concretize, Ctx, znot, HarnessError
    load.install()
    L, R = Lib("pvl"), Lib("pvl_ref")
    H = spec if isinstance(spec, Harness) else make(spec)
    active = active_findings(H.prop)
    ex = Explorer(alphabet=H.alphabet, shard=shard, deadline=time.time() + H.timeout * opts.get("time_scale", 1.0),
                  max_steps=H.max_steps)
    ex.xcap = opts.get("xsolver_samples", 0) if not shard or not any(shard) else 0
    ex._xrng.seed(opts.get("seed", 0) * 7919 + len(H.name))
    res = dict(tags=collections.Counter(), violations=[], inconclusive=collections.Counter(), samples=[],
               crosschecked=0, mismatches=[], reached=0, nontrivial=0, assumed=collections.Counter())
    maxviol = opts.get("max_violations", 6)
    nsamples = opts.get("samples", 3)
    signal.signal(signal.SIGALRM, _alarm)

    def path(ctx):
        signal.setitimer(signal.ITIMER_REAL, H.path_seconds)
        try:
            inp = H.inputs(ctx)
            ctx.inputs = inp
            for fid, cond in H.known(L, inp):
                if fid in active:
                    c = B(cond)
                    if c is True:
                        from .core import PathAbort
                        raise PathAbort()
                    ctx.assume(znot(c))
                    res["assumed"][fid] += 1
            try:
                return H.prop_fn(L, inp)
            except Exception as e:           # noqa: an exception type the harness did not expect
                return Outcome("unexpected:" + type(e).__name__, False, {"exception": repr(e)[:300]})
        finally:
            signal.setitimer(signal.ITIMER_REAL, 0)

    def on_path(ctx, o, exc):
        if exc is not None:
            res["inconclusive"]["%s: %s" % exc] += 1
            return
        res["tags"][o.tag] += 1
        okz = B(o.ok)
        viol_model = None
        if okz is True:
            res["reached"] += 1
        elif okz is False:
            res["reached"] += 1
            viol_model = ctx.model()
        else:
            res["reached"] += 1
            r, m = ctx.check(z3.Not(okz))
            if r == "sat":
                viol_model = m
            elif r != "unsat":
                res["inconclusive"]["solver unknown on the assertion"] += 1
        if any(rec.kind == "D" and rec.open is not None for rec in ex.log):
            res["nontrivial"] += 1
        if viol_model is not None and len(res["violations"]) < maxviol:
            inp_c = concretize(ctx.inputs, viol_model)
            res["violations"].append(dict(inputs=codec.enc(inp_c), tag=o.tag,
                                          detail=codec.enc(concretize(o.detail, viol_model))))
        elif viol_model is not None:
            res["violations_dropped"] = res.get("violations_dropped", 0) + 1
        # per-path cross-check of the symbolic run against the pristine implementation
        m = ctx.model()
        inp_c = concretize(ctx.inputs, m)
        from .core import BudgetExceeded
        signal.setitimer(signal.ITIMER_REAL, H.path_seconds)
        try:
            oc = H.prop_fn(R, inp_c)
        except Exception as e:               # noqa
            oc = Outcome("unexpected:" + type(e).__name__, False, {"exception": repr(e)[:300]})
        except BudgetExceeded:
            res["inconclusive"]["the implementation did not return within %ds on a path witness: %s"
                                % (H.path_seconds, json.dumps(codec.enc(inp_c))[:200])] += 1
            return
        finally:
            signal.setitimer(signal.ITIMER_REAL, 0)
        ok_sym = okz if isinstance(okz, bool) else z3.is_true(m.eval(okz, model_completion=True))
        ok_con = bool(oc.ok)
        det_s = codec.enc(concretize(o.detail, m)) if not o.tag.startswith("unexpected:") else None
        det_c = codec.enc(oc.detail) if not oc.tag.startswith("unexpected:") else None
        res["crosschecked"] += 1
        if oc.tag != o.tag or ok_sym != ok_con or det_s != det_c:
            if os.environ.get("SYMX_DUMP_MISMATCH") and not isinstance(okz, bool):
                def _falsy(f, depth=0):
                    if z3.is_and(f):
                        for ch in f.children():
                            if not z3.is_true(m.eval(ch, model_completion=True)):
                                return _falsy(ch, depth + 1)
                    return f
                def _show(f, ind=0):
                    if z3.is_and(f):
                        for i, ch in enumerate(f.children()):
                            v = z3.is_true(m.eval(ch, model_completion=True))
                            sys.stderr.write("%s[%d] %s %s\n" % (" " * ind, i, v, "AND" if z3.is_and(ch) else ch.sexpr().replace("\n", " ")[-60:]))
                            if not v:
                                _show(ch, ind + 2)
                _show(okz)
                bad = _falsy(okz)
                sys.stderr.write("MISMATCH false conjunct: %s\n model: %s\n" % (bad.sexpr()[:3000], str(m)[:500]))
            if len(res["mismatches"]) < 5:
                res["mismatches"].append(dict(inputs=codec.enc(inp_c), sym=[o.tag, ok_sym, det_s],
                                              ref=[oc.tag, ok_con, det_c]))
        if len(res["samples"]) < nsamples and (res["tags"][o.tag] == 1):
            res["samples"].append(dict(obligation=H.name, witness=codec.enc(inp_c), outcome=o.tag,
                                       decisions=len(ex.log), holds=ok_con))

    stats = ex.run(path, on_path)
    if ex.xsamples:
        from . import xsolver
        res["xsolver"] = xsolver.recheck([x for x in ex.xsamples if x])
    res["stats"] = {k: (round(v, 3) if isinstance(v, float) else v) for k, v in stats.items()}
    res["tags"] = dict(res["tags"])
    res["inconclusive"] = dict(res["inconclusive"])
    res["assumed"] = dict(res["assumed"])
    res["functions"] = sorted(load.SEEN)
    return res


# ---------------------------------------------------------------------------
def replay_file(prop, H, inputs_enc, tag):
    d = os.path.join(OUT, "replays", prop)
    os.makedirs(d, exist_ok=True)
    body = dict(property=prop, harness=list(H.spec()[:2]) + [H.spec()[2]], inputs=inputs_enc, expected_tag=tag)
    txt = json.dumps(body, sort_keys=True, indent=1)
    h = hashlib.sha1(txt.encode()).hexdigest()[:12]
    p = os.path.join(d, h + ".json")
    with open(p, "w") as f:
        f.write(txt)
    return p


def run_replay(path, timeout=60):
    """fresh interpreter, no import hook, no shims; returns (status, output)
    status: 'violated' | 'holds' | 'error'"""
    env = dict(os.environ)
    env.pop("PVL_VERIF", None)
    try:
        p = subprocess.run([PY, os.path.join(VERIF, "replay.py"), path], capture_output=True, text=True,
                           timeout=timeout, env=env)
    except subprocess.TimeoutExpired:
        return "timeout", "replay did not finish in %ds" % timeout
    if p.returncode == 1:
        return "violated", p.stdout.strip()
    if p.returncode == 0:
        return "holds", p.stdout.strip()
    return "error", (p.stdout + p.stderr)[-2000:]


def run_property(prop, harnesses, tier, seed, jobs=16, level="model_checking", extra_evidence=None, time_scale=1.0):
    """run all obligations of one property; write evidence; return exit status"""
    import concurrent.futures as cf
    import multiprocessing as mp
    t0 = time.time()
    tasks = []
    for H in harnesses:
        for shard in itertools.product((0, 1), repeat=H.shard_bits):
            tasks.append((H.spec(), shard))
    import random
    random.Random(seed).shuffle(tasks)
    opts = dict(time_scale=time_scale, seed=seed, xsolver_samples=(4 if tier == "quick" else 20))
    results = []
    ctxm = mp.get_context("fork")
    with cf.ProcessPoolExecutor(max_workers=jobs, mp_context=ctxm) as pool:
        futs = [pool.submit(run_selftest, 0.4 if tier == "quick" else 1.0)]
        futs += [pool.submit(run_task, spec, shard, opts) for spec, shard in tasks]
        for f in cf.as_completed(futs):
            results.append(f.result())
    selftest = [r for r in results if r.get("selftest")][0]
    results = [r for r in results if not r.get("selftest")]
    byname = {H.name: H for H in harnesses}
    agg = {}
    harness_errors = []
    xs = collections.Counter()
    for r in results:
        H = make(tuple(r["spec"]))
        a = agg.setdefault(H.name, dict(paths=0, decisions=0, queries=0, solver_s=0.0, tags=collections.Counter(),
                                        violations=[], inconclusive=collections.Counter(), crosschecked=0,
                                        mismatches=[], reached=0, nontrivial=0, exhausted=True, samples=[], wall_s=0.0,
                                        shards=0, assumed=collections.Counter()))
        a["shards"] += 1
        a["wall_s"] += r.get("wall_s", 0)
        if not r["ok"]:
            harness_errors.append((H.name, r.get("error", "?")))
            a["exhausted"] = False
            continue
        st = r["stats"]
        a["paths"] += st["paths"]
        a["decisions"] += st["decisions"]
        a["queries"] += st["queries"]
        a["solver_s"] += st["solver_s"]
        a["exhausted"] = a["exhausted"] and st["exhausted"]
        a["tags"].update(r["tags"])
        a["inconclusive"].update(r["inconclusive"])
        a["assumed"].update(r["assumed"])
        a["violations"].extend(r["violations"])
        a["mismatches"].extend(r["mismatches"])
        a["crosschecked"] += r["crosschecked"]
        a["reached"] += r["reached"]
        a["nontrivial"] += r["nontrivial"]
        a["samples"].extend(r["samples"])
        a.setdefault("functions", set()).update(r["functions"])
        if r.get("xsolver"):
            for k in ("queries", "cvc5_agree", "cvc5_unknown", "z3_4_8_agree", "z3_4_8_unknown"):
                xs[k] += r["xsolver"][k]
            for dis in r["xsolver"]["disagreements"]:
                harness_errors.append((H.name, "solvers disagree on a path query: %s" % json.dumps(dis)[:1200]))
    status = EXIT_OK
    lines = []
    confirmed = []
    if not selftest["ok"]:
        harness_errors.append(("selftest", "a model of a C-level function disagrees with CPython: " + selftest["error"]))
    # known findings: replay each witness
    kf_replayed = []
    for fid, e in sorted(active_findings(prop).items()):
        Hs = [h for h in harnesses if type(h).__name__ == e["witness"]["harness"][1]]
        Hk = make(tuple(e["witness"]["harness"]))
        p = replay_file(prop, Hk, e["witness"]["inputs"], "known-finding")
        st, outp = run_replay(p)
        kf_replayed.append(dict(id=fid, status=st))
        if st == "violated":
            lines.append("KNOWN-FINDING: property=%s %s [%s]" % (prop, e["what"], fid))
        else:
            lines.append("NOTE known finding %s no longer reproduces (%s)" % (fid, st))
    # violations: replay before reporting (at most MAX_REPLAYS_PER_OBLIGATION distinct inputs per
    # obligation, the rest are counted; replays run concurrently, each in its own fresh interpreter)
    todo = []
    not_replayed = 0
    for name, a in sorted(agg.items()):
        H = byname[name]
        seen = set()
        for v in a["violations"]:
            key = json.dumps(v["inputs"], sort_keys=True)
            if key in seen:
                continue
            seen.add(key)
            if len(seen) > MAX_REPLAYS_PER_OBLIGATION or len(todo) >= MAX_REPLAYS:
                not_replayed += 1
                continue
            todo.append((name, replay_file(prop, H, v["inputs"], v["tag"]), v))
        for mm in a["mismatches"]:
            harness_errors.append((name, "symbolic run disagrees with the implementation on a path witness: %s"
                                   % json.dumps(mm)[:1500]))
        if H.must_reach and not any(a["tags"].get(t) for t in H.must_reach) and a["exhausted"] \
                and not a["violations"]:
            harness_errors.append((name, "vacuous: none of the tags %s was reached (%s)" % (H.must_reach, dict(a["tags"]))))
    with cf.ThreadPoolExecutor(max_workers=jobs) as tp:
        outs = list(tp.map(lambda t: run_replay(t[1]), todo))
    for (name, p, v), (st, outp) in zip(todo, outs):
        if st == "violated":
            confirmed.append((name, p, v, outp))
        else:
            harness_errors.append((name, "counterexample did not reproduce (%s): %s\n%s" % (st, p, outp)))
    if not_replayed:
        lines.append("NOTE %d further counterexamples were found but not replayed (limit per obligation)" % not_replayed)
    for name, p, v, outp in confirmed:
        lines.append("VIOLATION property=%s replay=%s" % (prop, p))
        lines.append("  obligation=%s outcome=%s %s" % (name, v["tag"], outp[:400].replace("\n", " | ")))
    if confirmed:
        status = EXIT_VIOLATION
    if harness_errors:
        for name, msg in harness_errors[:20]:
            lines.append("HARNESS-ERROR obligation=%s %s" % (name, msg))
        if status == EXIT_OK:
            status = EXIT_HARNESS
    n_obl = len(agg)
    discharged = sum(1 for a in agg.values() if a["exhausted"] and not a["inconclusive"] and not a["violations"]
                     and not a["mismatches"])
    inconc = {n: dict(a["inconclusive"], **({} if a["exhausted"] else {"not exhausted within the time budget": 1}))
              for n, a in agg.items() if a["inconclusive"] or not a["exhausted"]}
    if inconc:
        lines.append("NOTE inconclusive=%d of %d obligations" % (len(inconc), n_obl))
    tot = lambda k: sum(a[k] for a in agg.values())
    functions = sorted(set().union(*[a.get("functions", set()) for a in agg.values()])) if agg else []
    samples = []
    for a in agg.values():
        samples.extend(a["samples"][:2])
    H0 = harnesses[0] if harnesses else None
    ev = dict(
        property_id=prop, tier=tier, seed=seed, level=level,
        coverage=dict(
            states=tot("paths"), transitions=tot("decisions"), traces_validated_against_impl=tot("crosschecked"),
            samples=samples[:40] or [dict(note="no path explored")],
            evaluations=tot("paths"), distinct_nontrivial=tot("nontrivial"),
            rule="one evaluation = one explored execution path of the real pvl code (an equivalence class of inputs "
                 "described by its path condition, decided by z3); non-trivial = the path took at least one "
                 "two-sided symbolic decision; paths are distinct by construction (their path conditions partition "
                 "the bounded input space)",
            obligations=n_obl, discharged=discharged, exhaustive=all(a["exhausted"] for a in agg.values()),
            paths_reaching_assert=tot("reached"), queries=tot("queries"), solver_s=round(tot("solver_s"), 2),
            inconclusive=inconc,
            per_obligation={n: dict(paths=a["paths"], decisions=a["decisions"], queries=a["queries"],
                                    solver_s=round(a["solver_s"], 2), outcomes=dict(a["tags"]), shards=a["shards"],
                                    cpu_s=round(a["wall_s"], 1), exhausted=a["exhausted"],
                                    bounds=byname[n].bounds, known_classes_assumed_away=dict(a["assumed"]))
                            for n, a in sorted(agg.items())},
            functions_encoded=functions,
            stubs=sorted(set(s for h in harnesses for s in h.stubs)),
            known_findings_replayed=kf_replayed,
            solver="z3 " + _z3_version(),
            cross_solver_recheck=dict(xs, note="seeded reservoir sample of path queries per obligation, re-decided as "
                                               "SMT-LIB2 by cvc5 (wheel) and the system z3 4.8.12; a disagreement is exit 3"),
            model_selftest=dict(comparisons_against_cpython=selftest.get("comparisons", 0), ok=selftest["ok"],
                                wall_s=selftest["wall_s"]),
            engine="symx (symbolic execution of /repo/pvl through an AST instrumenter; z3 decides every branch)",
        ),
        assumptions=sorted(set(s for h in harnesses for s in h.assumptions)),
        wall_s=round(time.time() - t0, 2),
        violations=len(confirmed),
    )
    if extra_evidence:
        ev["coverage"].update(extra_evidence)
    os.makedirs(os.path.join(OUT, "evidence"), exist_ok=True)
    with open(os.path.join(OUT, "evidence", prop + ".json"), "w") as f:
        json.dump(ev, f, indent=1, sort_keys=True)
    for ln in lines:
        print(ln)
    print("%s %s: obligations=%d discharged=%d paths=%d decisions=%d queries=%d solver_s=%.1f crosschecked=%d wall=%.1fs"
          % (prop, tier, n_obl, discharged, tot("paths"), tot("decisions"), tot("queries"), tot("solver_s"),
             tot("crosschecked"), time.time() - t0))
    return status


def _z3_version():
    try:
        import z3
        return z3.get_version_string()
    except Exception:
        return "?"
