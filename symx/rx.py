"""symx.rx - Python regular expressions over fixed-length symbolic strings.

Patterns are parsed with the stdlib's own parser (re._parser).  Every
single-character node (literal, class, category, '.', with whatever flags the
pattern carries) is turned into a set of code-point ranges *by asking the real
``re`` engine* about each code point of the alphabet in force, so Unicode
categories and IGNORECASE are exact by construction.  On top of that:

  * ``ends(i)``  - dynamic programming: {end position: condition} for "some
    match starts at i and ends there" (one merged formula => one decision);
  * ``alts(i)``  - the matches starting at i in Python's backtracking priority
    order, each with its list of conditions and group spans; the first whose
    conditions hold is *the* match (decided lazily, only when groups/end are
    inspected).

Anything outside the supported subset raises Unsupported.
"""
import re as _re
import re._parser as sre_parse
import re._constants as sre_c
import re._compiler as sre_compile

import z3

from .core import (Unsupported, HarnessError, Ctx, SymStr, SymChar, SymInt, ch_eq, ch_in, zand, zor, znot,
                   ranges_from_pred, ranges_norm, ranges_inter, mkbool, cs_key)

_FLAGMASK = _re.IGNORECASE | _re.ASCII | _re.DOTALL | _re.MULTILINE | _re.UNICODE
_node_pat_cache = {}


def _single_pat(node, flags):
    key = (repr(node), flags & _FLAGMASK)
    p = _node_pat_cache.get(key)
    if p is None:
        st = sre_parse.State()
        st.flags = flags & _FLAGMASK
        sp = sre_parse.SubPattern(st, [node])
        p = _node_pat_cache[key] = (sre_compile.compile(sp, flags & _FLAGMASK), key)
    return p


def node_ranges(node, flags):
    pat, key = _single_pat(node, flags)
    return ranges_from_pred(("rx",) + key, lambda ch: pat.fullmatch(ch) is not None, Ctx.cur.alphabet)


_SINGLE = (sre_c.LITERAL, sre_c.NOT_LITERAL, sre_c.ANY, sre_c.IN, sre_c.CATEGORY)


class Matcher:
    def __init__(self, parsed, cs, flags):
        self.p = parsed
        self.cs = cs
        self.n = len(cs)
        self.flags = flags
        self.memo = {}
        self.keep = []

    def single(self, node, i):
        """condition for cs[i] matching single-char node"""
        c = self.cs[i]
        if isinstance(c, str):
            # a concrete character may lie outside the alphabet in force (e.g. a private-use placeholder)
            return _single_pat(node, self.flags)[0].fullmatch(c) is not None
        alpha = Ctx.cur.alphabet
        if ranges_inter(c.dom, alpha) != c.dom:
            # so may part of a symbolic character's domain (str.replace by such a placeholder): classify over it
            pat, key = _single_pat(node, self.flags)
            return ch_in(c, ranges_from_pred(("rx",) + key, lambda ch: pat.fullmatch(ch) is not None, c.dom))
        return ch_in(c, node_ranges(node, self.flags))

    def at(self, av, i):
        n = self.n
        if av in (sre_c.AT_BEGINNING_STRING,):
            return i == 0
        if av is sre_c.AT_BEGINNING:
            if self.flags & _re.MULTILINE:
                raise Unsupported("regex ^ with MULTILINE")
            return i == 0
        if av is sre_c.AT_END_STRING:
            return i == n
        if av is sre_c.AT_END:
            if self.flags & _re.MULTILINE:
                raise Unsupported("regex $ with MULTILINE")
            if i == n:
                return True
            if i == n - 1:
                return ch_eq(self.cs[i], "\n")
            return False
        raise Unsupported("regex anchor %s" % av)

    # ---- merged: {end: cond}
    def ends(self, nodes, i, k=0):
        key = (id(nodes), i, k)
        r = self.memo.get(key)
        if r is not None:
            return r
        self.keep.append(nodes)
        r = self.memo[key] = self._ends(nodes, i, k)
        return r

    def _ends(self, nodes, i, k):
        if k == len(nodes):
            return {i: True}
        op, av = nodes[k]
        res = {}

        def add(j, cond):
            if cond is False:
                return
            res[j] = zor([res[j], cond]) if j in res else cond

        def then(j, cond):
            if cond is False:
                return
            for e, c2 in self.ends(nodes, j, k + 1).items():
                add(e, zand([cond, c2]))

        if op in _SINGLE:
            if i < self.n:
                then(i + 1, self.single(nodes[k], i))
        elif op is sre_c.BRANCH:
            for alt in av[1]:
                for j, c1 in self.ends(alt, i).items():
                    then(j, c1)
        elif op is sre_c.SUBPATTERN:
            if av[1] or av[2]:
                raise Unsupported("inline regex flags")
            for j, c1 in self.ends(av[3], i).items():
                then(j, c1)
        elif op in (sre_c.MAX_REPEAT, sre_c.MIN_REPEAT):
            lo, hi, sub = av
            frontier = {i: True}
            cnt = 0
            while True:
                if cnt >= lo:
                    for j, c1 in frontier.items():
                        then(j, c1)
                if hi is not sre_c.MAXREPEAT and cnt >= hi:
                    break
                nf = {}
                for j, c1 in frontier.items():
                    for e, c2 in self.ends(sub, j).items():
                        if e > j or cnt < lo:
                            cc = zand([c1, c2])
                            if cc is False:
                                continue
                            nf[e] = zor([nf[e], cc]) if e in nf else cc
                if not nf:
                    break
                frontier = nf
                cnt += 1
                if cnt > self.n + (lo if lo else 0) + 1:
                    break
        elif op is sre_c.AT:
            then(i, self.at(av, i))
        else:
            raise Unsupported("regex op %s" % op)
        return res

    def altlist(self, nodes, start):
        """materialised, cached list of prioritized alternatives from *start*"""
        key = ("alts", id(nodes), start)
        r = self.memo.get(key)
        if r is None:
            self.keep.append(nodes)
            r = self.memo[key] = [(e, zand(conds), g) for e, conds, g in self.alts(nodes, start, 0, {})]
        return r

    # ---- prioritized: yields (end, [conds], groups)
    def alts(self, nodes, i, k, groups):
        if k == len(nodes):
            yield i, [], groups
            return
        op, av = nodes[k]

        def rest(j, conds, g):
            for e, c2, g2 in self.alts(nodes, j, k + 1, g):
                yield e, conds + c2, g2

        if op in _SINGLE:
            if i < self.n:
                c = self.single(nodes[k], i)
                if c is not False:
                    yield from rest(i + 1, [] if c is True else [c], groups)
        elif op is sre_c.BRANCH:
            for alt in av[1]:
                for j, c1, g1 in self.alts(alt, i, 0, groups):
                    yield from rest(j, c1, g1)
        elif op is sre_c.SUBPATTERN:
            gid = av[0]
            for j, c1, g1 in self.alts(av[3], i, 0, groups):
                if gid is not None:
                    g1 = dict(g1)
                    g1[gid] = (i, j)
                yield from rest(j, c1, g1)
        elif op in (sre_c.MAX_REPEAT, sre_c.MIN_REPEAT):
            lo, hi, sub = av
            greedy = op is sre_c.MAX_REPEAT

            def rep(j, cnt, conds, g):
                more = hi is sre_c.MAXREPEAT or cnt < hi

                def one_more():
                    if more:
                        for e, c1, g1 in self.alts(sub, j, 0, g):
                            if e > j or cnt < lo:
                                yield from rep(e, cnt + 1, conds + c1, g1)

                def stop():
                    if cnt >= lo:
                        yield from rest(j, conds, g)

                if greedy:
                    yield from one_more()
                    yield from stop()
                else:
                    yield from stop()
                    yield from one_more()

            yield from rep(i, 0, [], groups)
        elif op is sre_c.AT:
            c = self.at(av, i)
            if c is not False:
                yield from rest(i, [] if c is True else [c], groups)
        else:
            raise Unsupported("regex op %s" % op)


class SymMatch:
    """match object; which alternative matched is decided lazily"""

    def __init__(self, pat, s, mt, start, must_end=None):
        self.pat, self.s, self.mt, self._start, self.must_end = pat, s, mt, start, must_end
        self._sel = None
        self.string = s
        self.re = pat

    def _select(self):
        if self._sel is None:
            ctx = Ctx.cur
            for e, cond, g in self.mt.altlist(self.pat.nodes, self._start):
                if self.must_end is not None and e != self.must_end:
                    continue
                if ctx.decide_b(cond):
                    self._sel = (e, g)
                    break
            else:
                raise HarnessError("regex: merged formula satisfiable but no prioritized alternative is")
        return self._sel

    def _gid(self, n):
        if isinstance(n, str):
            return self.pat.names[n]
        return n

    def _one(self, n, default=None):
        if n == 0:
            return self.s[self._start:self.end()]
        e, g = self._select()
        gid = self._gid(n)
        if gid not in g:
            return default
        a, b = g[gid]
        return self.s[a:b]

    def group(self, *ns):
        if not ns:
            ns = (0,)
        r = tuple(self._one(n) for n in ns)
        return r[0] if len(r) == 1 else r

    def __getitem__(self, n):
        return self._one(n)

    def groups(self, default=None):
        return tuple(self._one(i, default) for i in range(1, self.pat.ngroups + 1))

    def groupdict(self, default=None):
        return {name: self._one(name, default) for name in self.pat.names}

    def start(self, n=0):
        if n == 0:
            return self._start
        e, g = self._select()
        return g.get(self._gid(n), (-1, -1))[0]

    def end(self, n=0):
        if n == 0:
            if self.must_end is not None:
                return self.must_end
            return self._select()[0]
        e, g = self._select()
        return g.get(self._gid(n), (-1, -1))[1]

    def span(self, n=0):
        return self.start(n), self.end(n)


_matcher_cache = {}


class SymPattern:
    def __init__(self, real):
        self.real = real
        self.pattern = real.pattern
        self.flags = real.flags
        self.parsed = sre_parse.parse(real.pattern, real.flags)
        self.nodes = self.parsed.data if hasattr(self.parsed, "data") else list(self.parsed)
        self.names = dict(real.groupindex)
        self.groupindex = real.groupindex
        self.ngroups = real.groups
        self.groups = real.groups

    def _conc(self, s):
        if isinstance(s, SymStr):
            if s.is_concrete():
                return s.concrete()
            return None
        return s

    def _mt(self, s):
        # matchers (and the formulas they have built) are shared by all paths of the process
        key = (self.pattern, self.flags, Ctx.cur.alphabet, cs_key(s.cs))
        mt = _matcher_cache.get(key)
        if mt is None:
            mt = _matcher_cache[key] = Matcher(self.parsed, s.cs, self.flags)
        return mt

    def _match_at(self, s, mt, i, full=False):
        ends = mt.ends(self.nodes, i)
        if full:
            cond = ends.get(len(s.cs), False)
            if not Ctx.cur.decide_b(cond):
                return None
            return SymMatch(self, s, mt, i, must_end=len(s.cs))
        cond = zor(list(ends.values()))
        if not Ctx.cur.decide_b(cond):
            return None
        return SymMatch(self, s, mt, i)

    def fullmatch(self, s, pos=0, endpos=None):
        c = self._conc(s)
        if c is not None:
            return self.real.fullmatch(c)
        if pos != 0 or endpos is not None:
            raise Unsupported("regex pos/endpos")
        return self._match_at(s, self._mt(s), 0, full=True)

    def match(self, s, pos=0, endpos=None):
        c = self._conc(s)
        if c is not None:
            return self.real.match(c, pos) if endpos is None else self.real.match(c, pos, endpos)
        if endpos is not None:
            raise Unsupported("regex endpos")
        return self._match_at(s, self._mt(s), pos)

    def search(self, s, pos=0, endpos=None):
        c = self._conc(s)
        if c is not None:
            return self.real.search(c, pos) if endpos is None else self.real.search(c, pos, endpos)
        if endpos is not None:
            raise Unsupported("regex endpos")
        mt = self._mt(s)
        for i in range(pos, len(s.cs) + 1):
            m = self._match_at(s, mt, i)
            if m is not None:
                return m
        return None

    def finditer(self, s):
        c = self._conc(s)
        if c is not None:
            yield from self.real.finditer(c)
            return
        mt = self._mt(s)
        i, n = 0, len(s.cs)
        while i <= n:
            m = self._match_at(s, mt, i)
            if m is None:
                i += 1
                continue
            e = m.end()
            if e == i:
                raise Unsupported("regex: empty match in scan")
            yield m
            i = e

    def findall(self, s):
        c = self._conc(s)
        if c is not None:
            return self.real.findall(c)
        out = []
        for m in self.finditer(s):
            if self.ngroups == 0:
                out.append(m.group(0))
            elif self.ngroups == 1:
                out.append(m.group(1) if m.group(1) is not None else "")
            else:
                out.append(tuple(g if g is not None else "" for g in m.groups()))
        return out

    def sub(self, repl, s, count=0):
        c = self._conc(s)
        if c is not None and (isinstance(repl, str) or callable(repl)):
            return self.real.sub(repl, c, count)
        if count != 0:
            raise Unsupported("regex sub count")
        if isinstance(repl, str) and "\\" in repl:
            raise Unsupported("regex sub with backreference replacement")
        s = SymStr.of(s)
        fn = repl if callable(repl) else None
        if fn is None:
            repl = SymStr.of(repl)
        out = []
        last = 0
        for m in self.finditer(s):
            out.extend(s.cs[last:m.start()])
            out.extend(SymStr.of(fn(m)).cs if fn else repl.cs)
            last = m.end()
        out.extend(s.cs[last:])
        return SymStr.mk(out)

    def subn(self, *a, **k):
        raise Unsupported("regex subn")

    def split(self, s, maxsplit=0):
        c = self._conc(s)
        if c is not None:
            return self.real.split(c, maxsplit)
        if maxsplit != 0:
            raise Unsupported("regex split maxsplit")
        out = []
        last = 0
        for m in self.finditer(s):
            out.append(SymStr.mk(s.cs[last:m.start()]))
            for gi in range(1, self.ngroups + 1):
                out.append(m.group(gi))
            last = m.end()
        out.append(SymStr.mk(s.cs[last:]))
        return out


_pat_cache = {}


def sym_compile(pattern, flags=0):
    if isinstance(pattern, SymPattern):
        return pattern
    if isinstance(pattern, _re.Pattern):
        real = pattern
    else:
        if isinstance(pattern, SymStr):
            if not pattern.is_concrete():
                raise Unsupported("symbolic regex pattern")
            pattern = pattern.concrete()
        real = _re.compile(pattern, flags)
    key = (real.pattern, real.flags)
    p = _pat_cache.get(key)
    if p is None:
        p = _pat_cache[key] = SymPattern(real)
    return p


class ReShim:
    """stands in for the ``re`` module inside the instrumented pvl modules"""

    def __getattr__(self, n):
        return getattr(_re, n)

    @staticmethod
    def compile(pattern, flags=0):
        return sym_compile(pattern, flags)

    @staticmethod
    def fullmatch(pattern, s, flags=0):
        return sym_compile(pattern, flags).fullmatch(s)

    @staticmethod
    def match(pattern, s, flags=0):
        return sym_compile(pattern, flags).match(s)

    @staticmethod
    def search(pattern, s, flags=0):
        return sym_compile(pattern, flags).search(s)

    @staticmethod
    def sub(pattern, repl, s, count=0, flags=0):
        return sym_compile(pattern, flags).sub(repl, s, count)

    @staticmethod
    def findall(pattern, s, flags=0):
        return sym_compile(pattern, flags).findall(s)

    @staticmethod
    def finditer(pattern, s, flags=0):
        return sym_compile(pattern, flags).finditer(s)

    @staticmethod
    def split(pattern, s, maxsplit=0, flags=0):
        return sym_compile(pattern, flags).split(s, maxsplit)

    @staticmethod
    def escape(s):
        return _re.escape(s)


RE = ReShim()
