"""symx.core - proxies (SymBool, SymInt, SymStr ...) and the path explorer.

Representation
  * a symbolic character is a SymChar(z, dom): z a z3 Int term, dom a tuple of
    inclusive code-point ranges that over-approximates its possible values
    (used only to answer comparisons without a solver call when they are
    decided by the domain alone - a sound simplification, the domain
    constraints are part of the path condition).
  * SymStr is a concrete-length tuple of one-character ``str`` / SymChar.
  * SymInt wraps a z3 Int term (Python ints are unbounded => mathematical ints).
  * SymBool wraps a z3 Bool term; ``bool()`` of it is a *decision*.

Exploration
  depth first over decision prefixes by re-execution.  One incremental solver
  lives for the whole obligation; every two-sided decision opens a frame
  (push) so that the shared prefix of consecutive paths is neither re-asserted
  nor re-checked.  Re-execution is checked for determinism by fingerprinting
  every event.
"""
import time
import z3

__all__ = [
    "Unsupported", "PathAbort", "BudgetExceeded", "HarnessError", "Ctx", "Explorer",
    "SymBool", "SymInt", "SymRat", "SymChar", "SymStr", "SymBytes", "B", "I", "mkbool", "mkint",
    "zand", "zor", "znot", "ch_eq", "ch_in", "ranges_norm", "ranges_from_pred", "in_ranges",
    "concretize", "ALPHABETS", "chars_to_ranges", "cs_key", "ziff", "zimp", "zbool", "independent_of",
]


import os as _os
_DEBUG = _os.environ.get("SYMX_DEBUG") == "1"
_DEBUG_FORKS = {} if _os.environ.get("SYMX_FORKS") == "1" else None


class Unsupported(BaseException):
    """An operation the engine cannot encode.  BaseException so that pvl's own
    ``except Exception`` / ``except ValueError`` clauses cannot swallow it; and
    the path is flagged at *raise* time, so that even a bare ``except:`` cannot
    turn an un-encodable path into a passing one."""

    def __init__(self, *a):
        BaseException.__init__(self, *a)
        if Ctx.cur is not None and Ctx.cur.unsupported is None:
            Ctx.cur.unsupported = " ".join(str(x) for x in a) or "unsupported"
        if _DEBUG:
            import traceback
            traceback.print_stack(limit=12)


class PathAbort(BaseException):
    """Path is infeasible or was cut on purpose (shard does not own it)."""


class BudgetExceeded(BaseException):
    """Per-path step budget or per-obligation deadline exhausted."""


class HarnessError(BaseException):
    """The machinery itself is wrong (non-determinism, model mismatch ...)."""


# --------------------------------------------------------------------------
# alphabets (bounds on "which characters"): tuples of inclusive ranges
ALPHABETS = {
    "ascii": ((0, 0x7F),),
    "print": ((0x20, 0x7E),),
    "latin": ((0, 0xFF),),
    "omni": ((0, 0x2FF), (0x660, 0x669), (0x1E9E, 0x1E9E), (0x2028, 0x2028), (0x212A, 0x212A),
             (0xFEFF, 0xFEFF), (0xFF10, 0xFF19), (0xFFFD, 0xFFFD), (0x10FFFF, 0x10FFFF)),
    "unicode": ((0, 0xD7FF), (0xE000, 0x10FFFF)),
}


def ranges_norm(rs):
    rs = sorted((int(a), int(b)) for a, b in rs if a <= b)
    out = []
    for a, b in rs:
        if out and a <= out[-1][1] + 1:
            out[-1] = (out[-1][0], max(out[-1][1], b))
        else:
            out.append((a, b))
    return tuple(out)


def ranges_inter(r1, r2):
    out = []
    i = j = 0
    while i < len(r1) and j < len(r2):
        a = max(r1[i][0], r2[j][0])
        b = min(r1[i][1], r2[j][1])
        if a <= b:
            out.append((a, b))
        if r1[i][1] < r2[j][1]:
            i += 1
        else:
            j += 1
    return tuple(out)


def ranges_minus(r1, r2):
    out = []
    for a, b in r1:
        cur = a
        for c, d in r2:
            if d < cur or c > b:
                continue
            if c > cur:
                out.append((cur, c - 1))
            cur = max(cur, d + 1)
            if cur > b:
                break
        if cur <= b:
            out.append((cur, b))
    return tuple(out)


def ranges_size(r):
    return sum(b - a + 1 for a, b in r)


def ranges_iter(r):
    for a, b in r:
        yield from range(a, b + 1)


def ranges_has(r, k):
    for a, b in r:
        if a <= k <= b:
            return True
    return False


_pred_cache = {}


def ranges_from_pred(key, pred, within):
    """code points c in *within* with pred(chr(c)); cached by (key, within)."""
    ck = (key, within)
    r = _pred_cache.get(ck)
    if r is None:
        out = []
        start = prev = None
        for c in ranges_iter(within):
            if pred(chr(c)):
                if start is None:
                    start = prev = c
                elif c == prev + 1:
                    prev = c
                else:
                    out.append((start, prev))
                    start = prev = c
        if start is not None:
            out.append((start, prev))
        r = _pred_cache[ck] = tuple(out)
    return r


# --------------------------------------------------------------------------
# z3 helpers that keep Python bools when the answer is already known
_T = z3.BoolVal(True)
_F = z3.BoolVal(False)


def zand(xs):
    out = []
    for x in xs:
        if x is True:
            continue
        if x is False:
            return False
        out.append(x)
    if not out:
        return True
    if len(out) == 1:
        return out[0]
    return z3.And(out)


def zor(xs):
    out = []
    for x in xs:
        if x is False:
            continue
        if x is True:
            return True
        out.append(x)
    if not out:
        return False
    if len(out) == 1:
        return out[0]
    return z3.Or(out)


def znot(x):
    if x is True:
        return False
    if x is False:
        return True
    return z3.Not(x)


def ziff(a, b):
    """a <-> b on python bools / z3 Bools"""
    if isinstance(a, bool) and isinstance(b, bool):
        return a == b
    if a is True:
        return b
    if b is True:
        return a
    if a is False:
        return znot(b)
    if b is False:
        return znot(a)
    return a == b


def zimp(a, b):
    return zor([znot(a), b])


def zbool(x):
    """python bool / z3 Bool -> z3 Bool"""
    if x is True:
        return _T
    if x is False:
        return _F
    return x


def B(x):
    """truth value as python bool or z3 Bool (no decision)"""
    if isinstance(x, SymBool):
        return x.z
    if isinstance(x, bool):
        return x
    if isinstance(x, z3.BoolRef):
        return x
    if isinstance(x, (SymInt,)):
        return x.z != 0
    if isinstance(x, SymStr):
        return len(x) > 0
    return bool(x)


def mkbool(z):
    if z is True or z is False:
        return z
    if z3.is_true(z):
        return True
    if z3.is_false(z):
        return False
    return SymBool(z)


def in_ranges(z, ranges):
    """z3 Bool: term z lies in ranges"""
    alts = []
    for a, b in ranges:
        if a == b:
            alts.append(z == a)
        else:
            alts.append(z3.And(z >= a, z <= b))
    return zor(alts)


# --------------------------------------------------------------------------
def _short(z):
    """cheap text for a term in a repr (pretty-printing a large term takes seconds; pvl builds error messages
    with values in them on paths where the message is never looked at)"""
    try:
        if z.num_args() == 0:
            return str(z)
        return "term#%d" % z.get_id()
    except Exception:
        return "term"


class SymBool:
    __slots__ = ("z",)

    def __init__(self, z):
        self.z = z

    def __bool__(self):
        return Ctx.cur.decide(self.z)

    def __eq__(self, o):
        if isinstance(o, (bool, SymBool)):
            return mkbool(self.z == zbool(B(o)))
        return False

    def __ne__(self, o):
        if isinstance(o, (bool, SymBool)):
            return mkbool(self.z != zbool(B(o)))
        return True

    def __and__(self, o):
        return mkbool(zand([self.z, B(o)]))
    __rand__ = __and__

    def __or__(self, o):
        return mkbool(zor([self.z, B(o)]))
    __ror__ = __or__

    def __invert__(self):
        return mkbool(z3.Not(self.z))

    def __hash__(self):
        raise Unsupported("hash of SymBool")

    def __repr__(self):
        return "SymBool(%s)" % _short(self.z)


def I(x):
    if isinstance(x, SymInt):
        return x.z
    if isinstance(x, bool):
        return z3.IntVal(int(x))
    if isinstance(x, int):
        return z3.IntVal(x)
    if isinstance(x, z3.ArithRef):
        return x
    raise Unsupported("int term from %s" % type(x).__name__)


def mkint(z):
    if isinstance(z, int):
        return z
    if z3.is_int_value(z):
        return z.as_long()
    return SymInt(z)


def _isnum(o):
    return isinstance(o, (int, SymInt)) and not isinstance(o, SymBool)


class SymInt:
    __slots__ = ("z",)

    def __init__(self, z):
        self.z = z

    def _cmp(self, o, f):
        if isinstance(o, SymRat):
            return NotImplemented
        if not _isnum(o):
            return NotImplemented
        return mkbool(f(self.z, I(o)))

    def __eq__(self, o):
        if not _isnum(o):
            if isinstance(o, SymRat):
                return o == self
            return False
        return mkbool(self.z == I(o))

    def __ne__(self, o):
        if not _isnum(o):
            if isinstance(o, SymRat):
                return o != self
            return True
        return mkbool(self.z != I(o))

    def __lt__(self, o): return self._cmp(o, lambda a, b: a < b)
    def __le__(self, o): return self._cmp(o, lambda a, b: a <= b)
    def __gt__(self, o): return self._cmp(o, lambda a, b: a > b)
    def __ge__(self, o): return self._cmp(o, lambda a, b: a >= b)

    def __add__(self, o):
        if not _isnum(o):
            return NotImplemented
        return mkint(self.z + I(o))
    __radd__ = __add__

    def __sub__(self, o):
        if not _isnum(o):
            return NotImplemented
        return mkint(self.z - I(o))

    def __rsub__(self, o):
        if not _isnum(o):
            return NotImplemented
        return mkint(I(o) - self.z)

    def __mul__(self, o):
        if isinstance(o, (str, SymStr)):
            return o * self
        if not _isnum(o):
            return NotImplemented
        if isinstance(o, SymInt):
            raise Unsupported("symbolic * symbolic")
        return mkint(self.z * I(o))
    __rmul__ = __mul__

    def __neg__(self):
        return mkint(-self.z)

    def __pos__(self):
        return self

    def __abs__(self):
        return mkint(z3.If(self.z < 0, -self.z, self.z))

    def __floordiv__(self, o):
        if not isinstance(o, int) or isinstance(o, bool) or o <= 0:
            raise Unsupported("floordiv by non-positive-constant")
        return mkint(self.z / o)      # z3 Int '/' is floor division for positive divisors

    def __mod__(self, o):
        if not isinstance(o, int) or isinstance(o, bool) or o <= 0:
            raise Unsupported("mod by non-positive-constant")
        return mkint(self.z % o)

    def __divmod__(self, o):
        return self // o, self % o

    def __truediv__(self, o):
        if not isinstance(o, int) or isinstance(o, bool) or o <= 0:
            raise Unsupported("truediv by non-positive-constant")
        return SymRat(self.z, o)

    def __bool__(self):
        return Ctx.cur.decide(self.z != 0)

    def __index__(self):
        return Ctx.cur.concretize_int(self.z)

    def __int__(self):
        return Ctx.cur.concretize_int(self.z)

    def __hash__(self):
        raise Unsupported("hash of SymInt")

    def __format__(self, spec):
        from . import cmodels
        return cmodels.format_int(self, spec)

    def __repr__(self):
        return "SymInt(%s)" % _short(self.z)


class SymRat:
    """num/den with a positive constant denominator: the result of ``symint / k``.
    Stands for the *float* quotient; only comparisons and round() are modelled
    (exactly over the rationals - lemma L1 of DESIGN.md section 4 justifies that
    for round(us / 1000) with 0 <= us <= 999999)."""
    __slots__ = ("num", "den")

    def __init__(self, num, den):
        self.num, self.den = num, den

    def _cmp(self, o, f):
        if isinstance(o, SymRat):
            return mkbool(f(self.num * o.den, o.num * self.den))
        if _isnum(o):
            return mkbool(f(self.num, I(o) * self.den))
        return NotImplemented

    def __eq__(self, o):
        r = self._cmp(o, lambda a, b: a == b)
        return False if r is NotImplemented else r

    def __ne__(self, o):
        r = self._cmp(o, lambda a, b: a != b)
        return True if r is NotImplemented else r

    def __lt__(self, o): return self._cmp(o, lambda a, b: a < b)
    def __le__(self, o): return self._cmp(o, lambda a, b: a <= b)
    def __gt__(self, o): return self._cmp(o, lambda a, b: a > b)
    def __ge__(self, o): return self._cmp(o, lambda a, b: a >= b)

    def __round__(self, nd=None):
        if nd is not None:
            raise Unsupported("round(x, n)")
        n, d = self.num, self.den
        q = n / d              # floor
        r = n % d              # 0 <= r < d
        up = z3.Or(2 * r > d, z3.And(2 * r == d, q % 2 == 1))   # ties to even
        return mkint(z3.If(up, q + 1, q))

    def __hash__(self):
        raise Unsupported("hash of SymRat")


class SymChar:
    __slots__ = ("z", "dom")

    def __init__(self, z, dom):
        self.z = z
        self.dom = dom

    def __repr__(self):
        return "<%s>" % _short(self.z)


_cheq_cache = {}


def ch_eq(a, b):
    """equality of two string elements -> python bool or z3 Bool"""
    sa, sb = isinstance(a, str), isinstance(b, str)
    if sa and sb:
        return a == b
    if sb:
        a, b, sa, sb = b, a, sb, sa
    if sa:
        o = ord(a)
        if not ranges_has(b.dom, o):
            return False
        if len(b.dom) == 1 and b.dom[0][0] == b.dom[0][1]:
            return True
        key = ("c", b.z.get_id(), o)     # tagged: term ids and code points are both small integers
        hit = _cheq_cache.get(key)
        if hit is None:
            hit = _cheq_cache[key] = (b.z == o, b.z)
        return hit[0]
    if a.z is b.z:
        return True
    ia, ib = a.z.get_id(), b.z.get_id()
    if ia == ib:
        return True
    if not ranges_inter(a.dom, b.dom):
        return False
    key = ("t", ia, ib)
    hit = _cheq_cache.get(key)
    if hit is None:
        hit = _cheq_cache[key] = (a.z == b.z, a.z, b.z)
    return hit[0]


_chin_cache = {}


def ch_in(c, ranges):
    """element c in code point ranges -> python bool or z3 Bool"""
    if isinstance(c, str):
        return ranges_has(ranges, ord(c))
    key = (c.z.get_id(), c.dom, ranges)
    hit = _chin_cache.get(key)
    if hit is not None:
        return hit[0]
    inter = ranges_inter(c.dom, ranges)
    if not inter:
        r = False
    elif inter == c.dom:
        r = True
    else:
        # choose the smaller formula
        rest = ranges_minus(c.dom, inter)
        if len(rest) < len(inter):
            r = znot(in_ranges(c.z, rest))
        else:
            r = in_ranges(c.z, inter)
    _chin_cache[key] = (r, c.z)
    return r


def chars_to_ranges(chars):
    return ranges_norm([(ord(x), ord(x)) for x in chars])


def cs_key(cs):
    """hashable identity of a tuple of string elements (valid while the z3 terms are alive)"""
    return tuple(c if isinstance(c, str) else (c.z.get_id(), c.dom) for c in cs)


def Cz(c):
    """z3 Int term of a string element"""
    if isinstance(c, str):
        return z3.IntVal(ord(c))
    return c.z


def _alpha():
    return Ctx.cur.alphabet


def _cls(key, pred):
    return ranges_from_pred(key, pred, _alpha())


def ch_cls(c, key, pred):
    """element c satisfies the character predicate -> python bool or z3 Bool.  The class is tabulated over the
    context alphabet; an element whose domain leaves it (placeholders, pinned characters) over its own domain."""
    if isinstance(c, str):
        return bool(pred(c))
    a = _alpha()
    if ranges_inter(c.dom, a) == c.dom:
        return ch_in(c, ranges_from_pred(key, pred, a))
    return ch_in(c, ranges_from_pred(key, pred, c.dom))


def _map_char(c, key, fn):
    """apply a str->str function that maps one char to one char (cases that
    change length are decided by forking).  Returns list of elements."""
    if isinstance(c, str):
        return list(fn(c))
    ctx = Ctx.cur
    table = _map_table(key, fn, ctx.alphabet)
    multi, deltas = table
    dom = c.dom
    # multi-character images: fork on each one that is possible
    for cp, img in multi:
        if ranges_has(dom, cp):
            if ctx.decide_b(ch_eq(c, chr(cp))):
                return list(img)
            dom = ranges_minus(dom, ((cp, cp),))
    # single-character images: piecewise c + delta (cached per term/domain/mapping)
    ck = (c.z.get_id(), dom, key, ctx.alphabet)
    hit = _mapchar_cache.get(ck)
    if hit is not None:
        return [hit[0]]
    term = c.z
    newdom = []
    pieces = []
    for delta, rs in deltas:
        inter = ranges_inter(dom, rs)
        if not inter:
            continue
        newdom.extend((a + delta, b + delta) for a, b in inter)
        if delta != 0:
            pieces.append((delta, inter))
    if not pieces:
        r = SymChar(c.z, dom)
    else:
        for delta, inter in pieces:
            term = z3.If(in_ranges(c.z, inter), c.z + delta, term)
        r = SymChar(term, ranges_norm(newdom))
    _mapchar_cache[ck] = (r, c.z)
    return [r]


_mapchar_cache = {}
_map_cache = {}


def _map_table(key, fn, within):
    ck = (key, within)
    t = _map_cache.get(ck)
    if t is None:
        multi = []
        bydelta = {}
        for cp in ranges_iter(within):
            img = fn(chr(cp))
            if len(img) != 1:
                multi.append((cp, img))
            else:
                bydelta.setdefault(ord(img) - cp, []).append((cp, cp))
        deltas = [(d, ranges_norm(rs)) for d, rs in sorted(bydelta.items())]
        t = _map_cache[ck] = (multi, deltas)
    return t


class SymStr:
    """fixed-length string; cs = tuple of (1-char str | SymChar)"""
    __slots__ = ("cs", "__dict__")

    def __init__(self, cs=()):
        self.cs = tuple(cs)

    # -- construction helpers
    @staticmethod
    def of(x):
        if isinstance(x, SymStr):
            return x
        if isinstance(x, str):
            return SymStr(tuple(x))
        raise Unsupported("SymStr.of(%s)" % type(x).__name__)

    @staticmethod
    def mk(cs):
        """plain str if every element is concrete, else SymStr"""
        cs = tuple(cs)
        for c in cs:
            if not isinstance(c, str):
                return SymStr(cs)
        return "".join(cs)

    def is_concrete(self):
        return all(isinstance(c, str) for c in self.cs)

    def concrete(self):
        return "".join(self.cs)

    # -- basic protocol
    def __len__(self):
        return len(self.cs)

    def __bool__(self):
        return len(self.cs) > 0

    def __iter__(self):
        for c in self.cs:
            yield c if isinstance(c, str) else SymStr((c,))

    def __getitem__(self, i):
        if isinstance(i, slice):
            if any(isinstance(x, SymInt) for x in (i.start, i.stop, i.step)):
                i = slice(*(int(x) if isinstance(x, SymInt) else x for x in (i.start, i.stop, i.step)))
            return SymStr.mk(self.cs[i])
        if isinstance(i, SymInt):
            i = int(i)
        if not isinstance(i, int):
            raise TypeError("string indices must be integers, not '%s'" % type(i).__name__)
        c = self.cs[i]
        return c if isinstance(c, str) else SymStr((c,))

    def __add__(self, o):
        if not isinstance(o, (str, SymStr)):
            return NotImplemented
        return SymStr(self.cs + SymStr.of(o).cs)

    def __radd__(self, o):
        if not isinstance(o, (str, SymStr)):
            return NotImplemented
        return SymStr(SymStr.of(o).cs + self.cs)

    def __mul__(self, n):
        if isinstance(n, SymInt):
            n = int(n)
        return SymStr.mk(self.cs * n)
    __rmul__ = __mul__

    def eqz(self, o):
        o = SymStr.of(o)
        if len(o.cs) != len(self.cs):
            return False
        return zand([ch_eq(a, b) for a, b in zip(self.cs, o.cs)])

    def __eq__(self, o):
        if not isinstance(o, (str, SymStr)):
            return False
        return mkbool(self.eqz(o))

    def __ne__(self, o):
        if not isinstance(o, (str, SymStr)):
            return True
        return mkbool(znot(self.eqz(o)))

    def _ord(self, o, strict_lt):
        raise Unsupported("ordering of symbolic strings")

    def __lt__(self, o): return self._ord(o, True)
    def __le__(self, o): return self._ord(o, True)
    def __gt__(self, o): return self._ord(o, True)
    def __ge__(self, o): return self._ord(o, True)

    def __hash__(self):
        raise Unsupported("hash of a symbolic string (set/dict membership must go through __sym_in__)")

    def __str__(self):
        raise Unsupported("str() of a SymStr at the C level")

    def __repr__(self):
        return "SymStr(%s)" % "".join(c if isinstance(c, str) else "?" for c in self.cs)

    def __format__(self, spec):
        from . import cmodels
        return cmodels.format_str(self, spec)

    def __contains__(self, sub):
        return Ctx.cur.decide_b(self.containsz(sub))

    def containsz(self, sub):
        if not isinstance(sub, (str, SymStr)):
            raise TypeError("'in <string>' requires string as left operand")
        sub = SymStr.of(sub)
        n, m = len(self.cs), len(sub.cs)
        if m == 0:
            return True
        if m > n:
            return False
        return zor([zand([ch_eq(self.cs[i + k], sub.cs[k]) for k in range(m)]) for i in range(n - m + 1)])

    # -- predicates
    def _startz(self, p, start=0):
        p = SymStr.of(p)
        cs = self.cs[start:] if start else self.cs
        if len(p.cs) > len(cs):
            return False
        return zand([ch_eq(a, b) for a, b in zip(cs, p.cs)])

    def startswith(self, p, start=0, end=None):
        if end is not None:
            raise Unsupported("startswith end")
        if isinstance(start, SymInt):
            start = int(start)
        if start < 0:
            start = max(0, len(self.cs) + start)
        if start > len(self.cs):
            return False
        if isinstance(p, tuple):
            return mkbool(zor([self._startz(x, start) for x in p]))
        return mkbool(self._startz(p, start))

    def _endz(self, p):
        p = SymStr.of(p)
        if len(p.cs) > len(self.cs):
            return False
        if not p.cs:
            return True
        return zand([ch_eq(a, b) for a, b in zip(self.cs[len(self.cs) - len(p.cs):], p.cs)])

    def endswith(self, p, start=None, end=None):
        if start is not None or end is not None:
            raise Unsupported("endswith bounds")
        if isinstance(p, tuple):
            return mkbool(zor([self._endz(x) for x in p]))
        return mkbool(self._endz(p))

    def _allcls(self, key, pred, empty=False):
        if not self.cs:
            return empty
        return mkbool(zand([ch_cls(c, key, pred) for c in self.cs]))

    def isalpha(self): return self._allcls("isalpha", str.isalpha)
    def isdigit(self): return self._allcls("isdigit", str.isdigit)
    def isdecimal(self): return self._allcls("isdecimal", str.isdecimal)
    def isnumeric(self): return self._allcls("isnumeric", str.isnumeric)
    def isalnum(self): return self._allcls("isalnum", str.isalnum)
    def isspace(self): return self._allcls("isspace", str.isspace)
    def isprintable(self): return self._allcls("isprintable", str.isprintable, empty=True)
    def isascii(self): return self._allcls("isascii", str.isascii, empty=True)

    def isupper(self):
        raise Unsupported("isupper")

    def islower(self):
        raise Unsupported("islower")

    # -- case mapping
    def _map(self, key, fn):
        out = []
        for c in self.cs:
            out.extend(_map_char(c, key, fn))
        return SymStr.mk(out)

    def casefold(self): return self._map("casefold", str.casefold)
    def lower(self): return self._map("lower", str.lower)
    def upper(self): return self._map("upper", str.upper)

    # -- encode
    def encode(self, encoding="utf-8", errors="strict"):
        enc = encoding.lower().replace("-", "").replace("_", "")
        if enc == "ascii":
            ok = zand([ch_in(c, ((0, 127),)) for c in self.cs])
            if Ctx.cur.decide_b(ok):
                return SymBytes(self, "ascii")
            raise UnicodeEncodeError("ascii", "?", 0, 1, "ordinal not in range(128) [symbolic]")
        if enc in ("utf8",):
            # surrogates are outside every alphabet
            return SymBytes(self, "utf-8")
        raise Unsupported("encode(%s)" % encoding)

    # -- editing
    def replace(self, old, new, count=-1):
        if not isinstance(count, int):
            raise Unsupported("symbolic replace count")
        old, new = SymStr.of(old), SymStr.of(new)
        if count < 0 and len(old.cs) == 1 and len(new.cs) == 1 and isinstance(old.cs[0], str) and isinstance(new.cs[0], str):
            o, n = old.cs[0], new.cs[0]
            out = []
            for c in self.cs:
                if isinstance(c, str):
                    out.append(n if c == o else c)
                elif not ranges_has(c.dom, ord(o)):
                    out.append(c)
                else:
                    dom = ranges_norm(ranges_minus(c.dom, ((ord(o), ord(o)),)) + ((ord(n), ord(n)),))
                    out.append(SymChar(z3.If(c.z == ord(o), z3.IntVal(ord(n)), c.z), dom))
            return SymStr.mk(out)
        if len(old.cs) == 0:
            raise Unsupported("replace of empty string")
        # general: leftmost non-overlapping scan, one decision per candidate position
        out = []
        i = 0
        n, m = len(self.cs), len(old.cs)
        left = count
        while i < n:
            if left != 0 and i + m <= n and Ctx.cur.decide_b(zand([ch_eq(self.cs[i + k], old.cs[k]) for k in range(m)])):
                out.extend(new.cs)
                i += m
                left -= 1
            else:
                out.append(self.cs[i])
                i += 1
        return SymStr.mk(out)

    def _is_ws(self, c, chars):
        """decision: element c is in the strip/split set"""
        if chars is None:
            return Ctx.cur.decide_b(ch_cls(c, "isspace", str.isspace))
        chars = SymStr.of(chars)
        if chars.is_concrete():
            return Ctx.cur.decide_b(ch_in(c, chars_to_ranges(chars.cs)))
        return Ctx.cur.decide_b(zor([ch_eq(c, x) for x in chars.cs]))

    def _stripx(self, chars, left, right):
        cs = list(self.cs)
        if left:
            while cs and self._is_ws(cs[0], chars):
                cs.pop(0)
        if right:
            while cs and self._is_ws(cs[-1], chars):
                cs.pop()
        return SymStr.mk(cs)

    def strip(self, chars=None): return self._stripx(chars, True, True)
    def lstrip(self, chars=None): return self._stripx(chars, True, False)
    def rstrip(self, chars=None): return self._stripx(chars, False, True)

    def split(self, sep=None, maxsplit=-1):
        if maxsplit != -1:
            raise Unsupported("split maxsplit")
        if sep is None:
            words, cur = [], []
            for c in self.cs:
                if self._is_ws(c, None):
                    if cur:
                        words.append(SymStr.mk(cur))
                        cur = []
                else:
                    cur.append(c)
            if cur:
                words.append(SymStr.mk(cur))
            return words
        sep = SymStr.of(sep)
        m = len(sep.cs)
        if m == 0:
            raise ValueError("empty separator")
        words, cur = [], []
        i, n = 0, len(self.cs)
        while i < n:
            if i + m <= n and Ctx.cur.decide_b(zand([ch_eq(self.cs[i + k], sep.cs[k]) for k in range(m)])):
                words.append(SymStr.mk(cur))
                cur = []
                i += m
            else:
                cur.append(self.cs[i])
                i += 1
        words.append(SymStr.mk(cur))
        return words

    _LINE_ENDS = None

    def splitlines(self, keepends=False):
        # CPython's line boundaries: \n \r \r\n \v \f \x1c \x1d \x1e \x85
        if SymStr._LINE_ENDS is None:
            SymStr._LINE_ENDS = chars_to_ranges("\n\r\v\f\x1c\x1d\x1e\x85  ")
        lines, cur = [], []
        i, n = 0, len(self.cs)
        while i < n:
            c = self.cs[i]
            if Ctx.cur.decide_b(ch_in(c, SymStr._LINE_ENDS)):
                end = [c]
                if i + 1 < n and Ctx.cur.decide_b(zand([ch_eq(c, "\r"), ch_eq(self.cs[i + 1], "\n")])):
                    end.append(self.cs[i + 1])
                    i += 1
                lines.append(SymStr.mk(cur + end if keepends else cur))
                cur = []
            else:
                cur.append(c)
            i += 1
        if cur:
            lines.append(SymStr.mk(cur))
        return lines

    def partition(self, sep):
        sep = SymStr.of(sep)
        m, n = len(sep.cs), len(self.cs)
        for i in range(n - m + 1):
            if Ctx.cur.decide_b(zand([ch_eq(self.cs[i + k], sep.cs[k]) for k in range(m)])):
                return SymStr.mk(self.cs[:i]), SymStr.mk(sep.cs), SymStr.mk(self.cs[i + m:])
        return self, "", ""

    def rpartition(self, sep):
        sep = SymStr.of(sep)
        m, n = len(sep.cs), len(self.cs)
        for i in range(n - m, -1, -1):
            if Ctx.cur.decide_b(zand([ch_eq(self.cs[i + k], sep.cs[k]) for k in range(m)])):
                return SymStr.mk(self.cs[:i]), SymStr.mk(sep.cs), SymStr.mk(self.cs[i + m:])
        return "", "", self

    def ljust(self, w, fill=" "):
        if isinstance(w, SymInt):
            w = int(w)
        return SymStr.mk(self.cs + tuple(fill) * max(0, w - len(self.cs)))

    def rjust(self, w, fill=" "):
        if isinstance(w, SymInt):
            w = int(w)
        return SymStr.mk(tuple(fill) * max(0, w - len(self.cs)) + self.cs)

    def zfill(self, w):
        raise Unsupported("zfill")

    def expandtabs(self, tabsize=8):
        out = []
        col = 0
        for c in self.cs:
            if Ctx.cur.decide_b(ch_eq(c, "\t")):
                if tabsize > 0:
                    k = tabsize - (col % tabsize)
                    out.extend(" " * k)
                    col += k
            else:
                if Ctx.cur.decide_b(zor([ch_eq(c, "\n"), ch_eq(c, "\r")])):
                    col = 0
                else:
                    col += 1
                out.append(c)
        return SymStr.mk(out)

    def translate(self, table):
        raise Unsupported("translate")

    def join(self, items):
        out = []
        for k, it in enumerate(items):
            if k:
                out.extend(self.cs)
            out.extend(SymStr.of(it).cs)
        return SymStr.mk(out)

    def format(self, *a, **k):
        raise Unsupported("SymStr as a format template")

    # -- searching with (possibly symbolic) bounds: results are SymInt
    def _span(self, start, end):
        n = len(self.cs)
        sym = isinstance(start, SymInt) or isinstance(end, SymInt)
        if start is None:
            start = 0
        if end is None:
            end = n
        if not sym:
            s = slice(start, end).indices(n)
            return s[0], s[1], None
        # symbolic bounds: python clamps negatives; we only support non-negative
        sz, ez = I(start), I(end)
        Ctx.cur.require(zand([sz >= 0, ez >= 0]), "negative symbolic bound in find/count")
        return 0, n, (sz, ez)

    def count(self, sub, start=None, end=None):
        sub = SymStr.of(sub)
        m = len(sub.cs)
        if m != 1:
            raise Unsupported("count of multi-char substring")
        lo, hi, symb = self._span(start, end)
        terms = []
        for i in range(lo, hi):
            e = ch_eq(self.cs[i], sub.cs[0])
            if symb is not None:
                e = zand([e, symb[0] <= i, i < symb[1]])
            if e is False:
                continue
            terms.append(1 if e is True else z3.If(e, 1, 0))
        k = sum(t for t in terms if isinstance(t, int))
        zs = [t for t in terms if not isinstance(t, int)]
        if not zs:
            return k
        return mkint(z3.Sum(zs + [z3.IntVal(k)]))

    def _findz(self, sub, start, end, reverse):
        sub = SymStr.of(sub)
        m = len(sub.cs)
        lo, hi, symb = self._span(start, end)
        res = -1
        rng = range(lo, hi - m + 1)
        order = rng if reverse else reversed(rng)     # last assignment wins
        for i in order:
            e = zand([ch_eq(self.cs[i + k], sub.cs[k]) for k in range(m)])
            if symb is not None:
                e = zand([e, symb[0] <= i, i + m <= symb[1]])
            if e is False:
                continue
            if e is True:
                res = i
            else:
                res = z3.If(e, z3.IntVal(i), res if not isinstance(res, int) else z3.IntVal(res))
        return mkint(res) if not isinstance(res, int) else res

    def find(self, sub, start=None, end=None):
        return self._findz(sub, start, end, False)

    def rfind(self, sub, start=None, end=None):
        return self._findz(sub, start, end, True)

    def index(self, sub, start=None, end=None):
        r = self.find(sub, start, end)
        if Ctx.cur.decide_b(B(r == -1)):
            raise ValueError("substring not found")
        return r


class SymBytes:
    """opaque encoded form of a symbolic string (what .encode() returns)"""
    __slots__ = ("s", "encoding")

    def __init__(self, s, encoding):
        self.s, self.encoding = s, encoding

    def decode(self, encoding="utf-8", errors="strict"):
        return self.s

    def __len__(self):
        raise Unsupported("len of symbolic bytes")

    def __hash__(self):
        raise Unsupported("hash of symbolic bytes")


# --------------------------------------------------------------------------
class _Rec:
    __slots__ = ("kind", "fp", "branch", "open", "val")

    def __init__(self, kind, fp, branch=None, open_=False, val=None):
        self.kind, self.fp, self.branch, self.open, self.val = kind, fp, branch, open_, val


class Ctx:
    """state of the path being executed; Ctx.cur is the active one"""
    cur = None

    def __init__(self, ex):
        self.ex = ex
        self.alphabet = ex.alphabet
        self.nvars = 0
        self.cache = {}
        self.keep = []
        self.unsupported = None
        self.notes = []
        self.inputs = {}
        self.steps = 0

    # -- variables
    def fresh_int(self, hint="i", lo=None, hi=None):
        self.nvars += 1
        v = z3.Int("%s!%d" % (hint, self.nvars))
        cs = []
        if lo is not None:
            cs.append(v >= lo)
        if hi is not None:
            cs.append(v <= hi)
        if cs:
            self.assume(zand(cs))
        return v

    def fresh_char(self, hint="c", ranges=None):
        if ranges is None:
            ranges = self.alphabet
        ranges = ranges_norm(ranges)
        self.nvars += 1
        v = z3.Int("%s!%d" % (hint, self.nvars))
        self.assume(in_ranges(v, ranges))
        return SymChar(v, ranges)

    def fresh_str(self, n, hint="s", ranges=None):
        return SymStr([self.fresh_char("%s%d" % (hint, i), ranges) for i in range(n)])

    def fresh_bool(self, hint="b"):
        self.nvars += 1
        return z3.Bool("%s!%d" % (hint, self.nvars))

    # -- delegation
    def assume(self, cond):
        self.ex._assume(self, cond)

    def require(self, cond, why):
        """cond must hold on this path, else the path is outside the encoding"""
        if cond is True:
            return
        if cond is False or not self.decide(cond):
            raise Unsupported(why)

    def decide(self, cond):
        return self.ex._decide(self, cond)

    def decide_b(self, b):
        """decision on python-bool-or-z3-Bool"""
        if b is True or b is False:
            return b
        return self.ex._decide(self, b)

    def concretize_int(self, z, limit=80):
        if z3.is_int_value(z):
            return z.as_long()
        for _ in range(limit):
            # the candidate value comes from the model, which is not reproducible across
            # re-executions: while replaying a prefix the recorded value is used instead
            v = self.ex._replayed_val()
            if v is None:
                m = self.ex._model(self)
                r = m.eval(z, model_completion=True)
                if not z3.is_int_value(r):
                    raise Unsupported("cannot evaluate int term")
                v = r.as_long()
            if self.ex._decide(self, z == v, val=v):
                return v
        raise Unsupported("concretising an int with more than %d values" % limit)

    def check(self, extra):
        """satisfiability of PC and extra -> (result string, model or None)"""
        return self.ex._check(self, extra)

    def model(self):
        return self.ex._model(self)

    def step(self, n=1):
        self.steps += n
        if self.steps > self.ex.max_steps:
            raise BudgetExceeded("step budget %d" % self.ex.max_steps)


class Explorer:
    def __init__(self, alphabet="latin", shard=(), max_paths=10 ** 9, deadline=None, max_steps=200000,
                 max_decisions=100000):
        self.alphabet = ALPHABETS[alphabet] if isinstance(alphabet, str) else ranges_norm(alphabet)
        self.shard = tuple(shard)
        self.max_paths = max_paths
        self.deadline = deadline
        self.max_steps = max_steps
        self.max_decisions = max_decisions
        self.solver = z3.Solver()
        self.xcap = 0
        self.xsamples = []
        import random as _random
        self._xrng = _random.Random(12345)
        self.frames = 0
        self.prefix = []          # records to replay
        self.solver_valid = 0     # number of leading prefix events whose solver effect is still in place
        self.log = []
        self.pos = 0
        self.model = None
        self.two_sided_seen = 0
        self.stats = dict(paths=0, decisions=0, forced=0, queries=0, solver_s=0.0, aborted=0, unknown=0,
                          cache_hits=0)

    # ---- solver plumbing
    def _q(self, *extra):
        t = time.time()
        r = self.solver.check(*extra)
        self.stats["solver_s"] += time.time() - t
        self.stats["queries"] += 1
        if self.xcap and r in (z3.sat, z3.unsat):
            # reservoir sample of the queries, kept as SMT-LIB2 text for the cross-solver re-check
            n = self.stats["queries"]
            k = None
            if len(self.xsamples) < self.xcap:
                k = len(self.xsamples)
                self.xsamples.append(None)
            else:
                j = self._xrng.randrange(n)
                if j < self.xcap:
                    k = j
            if k is not None:
                tmp = z3.Solver()
                tmp.add(self.solver.assertions())
                for e in extra:
                    tmp.add(e)
                self.xsamples[k] = (tmp.to_smt2(), "sat" if r == z3.sat else "unsat")
        return r

    def _model(self, ctx):
        if self.model is None:
            r = self._q()
            if r == z3.unsat:
                raise PathAbort()
            if r != z3.sat:
                self.stats["unknown"] += 1
                raise Unsupported("solver unknown on path condition")
            self.model = self.solver.model()
        return self.model

    def _check(self, ctx, extra):
        if extra is True:
            return "sat", self._model(ctx)
        if extra is False:
            return "unsat", None
        r = self._q(extra)
        if r == z3.sat:
            return "sat", self.solver.model()
        if r == z3.unsat:
            return "unsat", None
        self.stats["unknown"] += 1
        return "unknown", None

    def _event(self, kind, fp):
        """returns the prefix record to replay, or None when past the prefix"""
        if self.pos < len(self.prefix):
            rec = self.prefix[self.pos]
            if rec.kind != kind or rec.fp != fp:
                raise HarnessError("non-deterministic re-execution at event %d: %s/%s vs %s/%s"
                                   % (self.pos, rec.kind, rec.fp, kind, fp))
            return rec
        return None

    def _assume(self, ctx, cond):
        if cond is True:
            return
        if cond is False:
            raise PathAbort()
        fp = cond.hash()
        rec = self._event("A", fp)
        if rec is not None:
            if self.pos >= self.solver_valid:
                self.solver.add(cond)
                self.model = None
            self.log.append(rec)
            self.pos += 1
            return
        self.solver.add(cond)
        if self.model is not None:
            v = self.model.eval(cond, model_completion=True)
            if not z3.is_true(v):
                self.model = None
        self.log.append(_Rec("A", fp))
        self.pos += 1

    def _replayed_val(self):
        if self.pos < len(self.prefix):
            return self.prefix[self.pos].val
        return None

    def _decide(self, ctx, cond, val=None):
        if cond is True or cond is False:
            return cond
        if z3.is_true(cond):
            return True
        if z3.is_false(cond):
            return False
        key = cond.get_id()
        hit = ctx.cache.get(key)
        if hit is not None:
            self.stats["cache_hits"] += 1
            return hit[0]
        ctx.step()
        fp = cond.hash()
        rec = self._event("D", fp)
        if rec is not None:
            b = rec.branch
            if rec.open is not None:          # two-sided (open or closed)
                if self.pos >= self.solver_valid:
                    self.solver.push()
                    self.frames += 1
                    self.solver.add(cond if b else z3.Not(cond))
                    self.model = None
                self.two_sided_seen += 1
            self.log.append(rec)
            self.pos += 1
            ctx.cache[key] = (b, cond)
            return b
        if len(self.log) > self.max_decisions:
            raise BudgetExceeded("decision budget")
        # fresh decision
        self.stats["decisions"] += 1
        m = self._model(ctx)
        v = m.eval(cond, model_completion=True)
        if z3.is_true(v):
            b = True
        elif z3.is_false(v):
            b = False
        else:
            raise Unsupported("model could not evaluate a condition")
        other = z3.Not(cond) if b else cond
        r = self._q(other)
        if r == z3.unsat:
            self.stats["forced"] += 1
            self.log.append(_Rec("D", fp, b, None, val))
            self.pos += 1
            ctx.cache[key] = (b, cond)
            return b
        if r != z3.sat:
            self.stats["unknown"] += 1
            raise Unsupported("solver unknown on a branch condition")
        # two-sided
        if _DEBUG_FORKS is not None:
            import sys as _sys
            f = _sys._getframe(1)
            site = []
            while f is not None and len(site) < 3:
                fn = f.f_code.co_filename
                if "/symx/core.py" not in fn and "/symx/framework" not in fn:
                    site.append("%s:%d" % (fn.split("/")[-1], f.f_lineno))
                f = f.f_back
            _DEBUG_FORKS[" < ".join(site)] = _DEBUG_FORKS.get(" < ".join(site), 0) + 1
        idx = self.two_sided_seen
        self.two_sided_seen += 1
        closed = False
        if idx < len(self.shard):
            b = bool(self.shard[idx])      # canonical, model independent
            closed = True
        self.solver.push()
        self.frames += 1
        self.solver.add(cond if b else z3.Not(cond))
        if closed:
            self.model = None
        self.log.append(_Rec("D", fp, b, not closed, val))
        self.pos += 1
        ctx.cache[key] = (b, cond)
        return b

    # ---- driver
    def run(self, fn, on_path=None):
        """fn(ctx) executes one path and returns a result object (or raises).
        on_path(ctx, result, exc) is called after every path.  Returns stats."""
        t0 = time.time()
        exhausted = False
        while True:
            if self.deadline is not None and time.time() > self.deadline:
                break
            if self.stats["paths"] >= self.max_paths:
                break
            ctx = Ctx(self)
            Ctx.cur = ctx
            self.log = []
            self.pos = 0
            self.two_sided_seen = 0
            res = exc = None
            try:
                res = fn(ctx)
            except PathAbort:
                exc = "abort"
            except Unsupported as e:
                exc = ("unsupported", str(e))
            except BudgetExceeded as e:
                exc = ("budget", str(e))
            except RecursionError as e:
                exc = ("unsupported", "RecursionError in engine/harness")
            finally:
                Ctx.cur = None
            # shard ownership: a path with fewer two-sided decisions than shard bits belongs to the
            # shard whose remaining bits are all 1
            owned = all(self.shard[self.two_sided_seen:]) if self.two_sided_seen < len(self.shard) else True
            if exc == "abort":
                self.stats["aborted"] += 1
            elif owned:
                self.stats["paths"] += 1
                if ctx.unsupported and exc is None:
                    exc = ("unsupported", ctx.unsupported)
                if on_path is not None:
                    Ctx.cur = ctx
                    try:
                        on_path(ctx, res, exc)
                    finally:
                        Ctx.cur = None
            # next prefix: flip the last open decision
            log = self.log
            j = len(log) - 1
            while j >= 0 and not (log[j].kind == "D" and log[j].open):
                j -= 1
            if j < 0:
                exhausted = True
                break
            # pop frames of two-sided decisions at index >= j
            npop = sum(1 for r in log[j:] if r.kind == "D" and r.open is not None)
            # frames may be fewer than expected if the path ended inside the replayed prefix
            npop = min(npop, self.frames)
            if npop:
                self.solver.pop(npop)
                self.frames -= npop
            flipped = _Rec("D", log[j].fp, not log[j].branch, False, log[j].val)
            self.prefix = log[:j] + [flipped]
            self.solver_valid = j
            self.model = None
        self.stats["wall_s"] = time.time() - t0
        self.stats["exhausted"] = exhausted
        return self.stats


# --------------------------------------------------------------------------
def concretize(v, m):
    """evaluate proxies under model m -> plain Python values"""
    if isinstance(v, SymStr):
        return "".join(c if isinstance(c, str) else chr(m.eval(c.z, model_completion=True).as_long()) for c in v.cs)
    if isinstance(v, SymChar):
        return chr(m.eval(v.z, model_completion=True).as_long())
    if isinstance(v, SymInt):
        return m.eval(v.z, model_completion=True).as_long()
    if isinstance(v, SymBool):
        return z3.is_true(m.eval(v.z, model_completion=True))
    if isinstance(v, SymBytes):
        return concretize(v.s, m).encode(v.encoding)
    if isinstance(v, z3.ExprRef):
        r = m.eval(v, model_completion=True)
        if z3.is_int_value(r):
            return r.as_long()
        if z3.is_true(r):
            return True
        if z3.is_false(r):
            return False
        raise HarnessError("cannot concretize %s" % v)
    if hasattr(v, "__concretize__"):
        return v.__concretize__(m)
    if isinstance(v, str) and type(v) is not str and hasattr(v, "lineno") and not isinstance(v.lineno, int):
        return type(v)(concretize(v.lineno, m))
    if isinstance(v, tuple) and hasattr(v, "_fields"):
        return type(v)(*[concretize(x, m) for x in v])
    if isinstance(v, (list, tuple)):
        return type(v)(concretize(x, m) for x in v)
    if hasattr(v, "getall") and hasattr(v, "append"):
        return type(v)([(concretize(k, m), concretize(x, m)) for k, x in v.items()])
    if isinstance(v, dict):
        return {concretize(k, m): concretize(x, m) for k, x in v.items()}
    if isinstance(v, (set, frozenset)):
        return type(v)(concretize(x, m) for x in v)
    return v


def independent_of(ctx, chars):
    """Non-interference query on the current path: the path condition does not constrain the given
    symbolic characters at all, i.e. PC(t) and not PC(t') is unsatisfiable for fresh copies t' (ranging
    over the same alphabet).  True means that no decision taken so far depended on them."""
    ex = ctx.ex
    asserts = list(ex.solver.assertions())
    if not asserts:
        return True
    pc = z3.And(asserts)
    subs, dom = [], []
    for c in chars:
        if isinstance(c, str):
            continue
        ctx.nvars += 1
        f = z3.Int("indep!%d" % ctx.nvars)
        subs.append((c.z, f))
        dom.append(in_ranges(f, c.dom))
    if not subs:
        return True
    pc2 = z3.substitute(pc, *subs)
    r = ex._q(z3.And(dom + [z3.Not(pc2)]))
    if r == z3.unsat:
        return True
    if r == z3.sat:
        return False
    raise Unsupported("solver unknown on the non-interference query")
