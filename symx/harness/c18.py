"""C18 - type-customisation hooks apply uniformly at every depth.

Substitutes: real_cls = R (records the EXACT text it is given and refuses text
outside the real-number language, as decimal.Decimal does), quantity_cls = Q,
module/group/object classes = trivial subclasses.  A label puts one real number
whose digits are symbolic (incl. trailing zeros, exponent forms) at every kind
of position: top level, sequence element, set element, nested sequence,
quantity magnitude, quantity inside a sequence, inside a group inside an
object - with integers beside it.  Assertions: every real is an R whose
recorded text is the lexeme; every value-with-units is a Q; every container is
the substitute class; integers are int; and erasing the substitutes gives
exactly what the default classes give.
"""
from ..core import SymStr, B, zand, Unsupported
from .common import Harness, Outcome, dialect, run_property, str_eq, veq, kind

try:
    from .. import rx, cmodels as cm
except Exception:     # pragma: no cover
    rx = cm = None


class R:
    """a real-number class like decimal.Decimal: built from text, keeps all written digits"""

    def __init__(self, text):
        if isinstance(text, SymStr):
            if rx.sym_compile(cm._FLOAT_RE).fullmatch(text) is None:
                raise ValueError("not a real number")
        else:
            float(text)
        self.text = text

    def __repr__(self):
        return "R(%r)" % (self.text,)


class Q:
    def __init__(self, value, units):
        self.value, self.units = value, units

    def __repr__(self):
        return "Q(%r, %r)" % (self.value, self.units)


SHAPES = ("d.dd", "sd.d0", "d.", ".dd", "d.d0E+4dd", "dEd", "sd.dde-d", "d.d00", "sd.dE-9dd")


def make_classes(L):
    col = L.collections

    class MyModule(col.PVLModule):
        pass

    class MyGroup(col.PVLGroup):
        pass

    class MyObject(col.PVLObject):
        pass
    return MyModule, MyGroup, MyObject


class Hooks(Harness):
    prop = "C18"
    alphabet = "ascii"
    must_reach = ("checked",)
    functions = ("pvl.decoder.PVLDecoder.__init__", "pvl.decoder.ODLDecoder.__init__", "pvl.decoder.PDSLabelDecoder.__init__",
                 "pvl.decoder.PVLDecoder.decode_decimal", "pvl.decoder.PVLDecoder.decode_quantity",
                 "pvl.parser.PVLParser.parse_units", "pvl.parser.ODLParser.parse_units", "pvl.parser.PVLParser.aggregation_cls",
                 "pvl.parser.PVLParser.parse_module", "pvl.parser.PVLParser.parse_value", "pvl.parser.PVLParser._parse_set_seq")

    @property
    def bounds(self):
        return "loader %s, a real of shape %r with symbolic digits at %s; grammar/decoder wired: %s" % (
            self.dialect, self.shape, self.where, getattr(self, "via", "shared"))

    def inputs(self, ctx):
        cs = []
        for i, ch in enumerate(self.shape):
            if ch == "d":
                cs.append(ctx.fresh_char("d%d" % i, ((48, 57),)))
            elif ch == "s":
                cs.append(ctx.fresh_char("s%d" % i, ((43, 43), (45, 45))))
            else:
                cs.append(ch)
        return {"x": SymStr(cs)}

    def label(self, x):
        w = self.where
        if w == "top":
            return "a = " + x + "\nn = 5\nEND\n", [("a", "R"), ("n", 5)]
        if w == "seq":
            return "a = (1, " + x + ", 3)\nEND\n", [("a", [1, "R", 3])]
        if w == "set":
            return "a = {" + x + "}\nEND\n", [("a", ("set", ["R"]))]
        if w == "nested":
            return "a = ((" + x + ", 2), (3))\nEND\n", [("a", [["R", 2], [3]])]
        if w == "quantity":
            return "a = " + x + " <m>\nb = 4 <s>\nEND\n", [("a", ("Q", "R", "m")), ("b", ("Q", 4, "s"))]
        if w == "seqquantity":
            return "a = (" + x + " <m>, 3 <s>)\nEND\n", [("a", [("Q", "R", "m"), ("Q", 3, "s")])]
        if w == "seqwhole":
            return "a = (" + x + ", 2) <m>\nEND\n", [("a", ("Q", ["R", 2], "m"))]
        if w == "setwhole":
            return "a = {" + x + "} <m>\nb = 1\nEND\n", [("a", ("Q", ("set", ["R"]), "m")), ("b", 1)]
        if w == "seqboth":
            return ("OBJECT = o\n a = (" + x + " <m>, 2 <m>) <k>\nEND_OBJECT\nEND\n",
                    [("o", ("object", [("a", ("Q", [("Q", "R", "m"), ("Q", 2, "m")], "k"))]))])
        if w == "blocks":
            return ("OBJECT = o\n GROUP = g\n  h = " + x + "\n  i = 7\n END_GROUP\n j = " + x + "\nEND_OBJECT\nEND\n",
                    [("o", ("object", [("g", ("group", [("h", "R"), ("i", 7)])), ("j", "R")]))])
        raise KeyError(w)

    def build(self, L, subst):
        g, d, p = L.grammar, L.decoder, L.parser
        G, Dc, Pc = {"PVL": (g.PVLGrammar, d.PVLDecoder, p.PVLParser), "ODL": (g.ODLGrammar, d.ODLDecoder, p.ODLParser),
                     "PDS3": (g.PDSGrammar, d.PDSLabelDecoder, p.ODLParser),
                     "Omni": (g.OmniGrammar, d.OmniDecoder, p.OmniParser)}[self.dialect]
        gr = G()
        via = getattr(self, "via", "shared")
        # how the caller wires grammar and decoder together: one grammar object shared by both (what the library's own
        # defaults do), two equal but separate grammar objects, the decoder alone, or the keywords of pvl.loads
        dgr = gr if via == "shared" else G()
        kw, classes = {}, None
        if subst:
            M, Gc, Oc = make_classes(L)
            dec = Dc(grammar=dgr, quantity_cls=Q, real_cls=R)
            kw, classes = dict(module_class=M, group_class=Gc, object_class=Oc), (M, Gc, Oc)
        else:
            dec = Dc(grammar=dgr)
        if via == "decoder_only":
            return Pc(decoder=dec, **kw), classes
        if via == "loads":
            class _ViaLoads:
                @staticmethod
                def parse(text):
                    if Pc is p.OmniParser:
                        return L.pvl.loads(text, grammar=gr, decoder=dec, **kw)
                    return L.pvl.loads(text, parser=Pc(grammar=gr, decoder=dec, **kw))
            return _ViaLoads, classes
        return Pc(grammar=gr, decoder=dec, **kw), classes

    def prop_fn(self, L, inp):
        x = inp["x"]
        text, exp = self.label(x)
        P, classes = self.build(L, True)
        P0, _ = self.build(L, False)
        if getattr(self, "order", "default-first") == "default-first":
            # a default-configured parser is used first: anything cached beyond the instance would show
            try:
                P0.parse(text)
            except (L.exceptions.LexerError, L.exceptions.ParseError):
                pass
        try:
            m = P.parse(text)
        except (L.exceptions.LexerError, L.exceptions.ParseError) as e:
            try:
                P0.parse(text)
            except (L.exceptions.LexerError, L.exceptions.ParseError):
                return Outcome("both-reject", True, {"text": text})
            return Outcome("substitutes-change-acceptance", False, {"text": text, "exception": type(e).__name__})
        m0 = P0.parse(text)
        ok = zand([check(m, ("module", exp), x, classes), erased_equal(L, m, m0)])
        return Outcome("checked", ok, {"text": text, "module": snap(m)})


def snap(v):
    if hasattr(v, "items"):
        return [type(v).__name__] + [(k, snap(x)) for k, x in v.items()]
    if isinstance(v, list):
        return [snap(x) for x in v]
    if isinstance(v, (set, frozenset)):
        return ["set"] + [snap(x) for x in v]
    if isinstance(v, R):
        return {"R": v.text}
    if isinstance(v, Q):
        return {"Q": [snap(v.value), v.units]}
    if hasattr(v, "_fields") and hasattr(v, "units"):
        return {"default Quantity": [snap(v.value), v.units]}
    if kind(v) == "set":
        return ["set"] + [snap(x) for x in v]
    return v


def check(v, e, x, classes):
    M, Gc, Oc = classes
    if isinstance(e, tuple) and e[0] in ("module", "group", "object"):
        want = {"module": M, "group": Gc, "object": Oc}[e[0]]
        if type(v) is not want:
            return False
        items = list(v.items())
        if len(items) != len(e[1]):
            return False
        return zand([zand([k == ek, check(val, ev, x, classes)]) for (k, val), (ek, ev) in zip(items, e[1])])
    if e == "R":
        return isinstance(v, R) and str_eq(v.text, x)
    if isinstance(e, tuple) and e[0] == "Q":
        return isinstance(v, Q) and zand([check(v.value, e[1], x, classes), str_eq(v.units, e[2])])
    if isinstance(e, tuple) and e[0] == "set":
        return isinstance(v, (set, frozenset)) and len(v) == len(e[1]) and zand(
            [check(val, ev, x, classes) for val, ev in zip(list(v), e[1])])
    if isinstance(e, list):
        return isinstance(v, list) and len(v) == len(e) and zand([check(a, b, x, classes) for a, b in zip(v, e)])
    return type(v) is int and v == e


def erased_equal(L, v, v0):
    """v with the substitutes erased (R -> float of its text, Q -> Quantity, classes -> defaults) equals v0"""
    if hasattr(v, "items"):
        if not hasattr(v0, "items"):
            return False
        base = type(v).__mro__[1].__name__
        if base != type(v0).__name__:
            return False
        a, b = list(v.items()), list(v0.items())
        if len(a) != len(b):
            return False
        return zand([zand([k1 == k2, erased_equal(L, x1, x2)]) for (k1, x1), (k2, x2) in zip(a, b)])
    if isinstance(v, R):
        t = v.text
        f = float(t) if isinstance(t, str) else cm.SymFloat(t)
        return veq(f, v0)
    if isinstance(v, Q):
        return kind(v0) == "quantity" and zand([erased_equal(L, v.value, v0.value), str_eq(v.units, v0.units)])
    if isinstance(v, list):
        return isinstance(v0, list) and len(v) == len(v0) and zand([erased_equal(L, a, b) for a, b in zip(v, v0)])
    if isinstance(v, (set, frozenset)):
        if not isinstance(v0, (set, frozenset)) and kind(v0) != "set":
            return False
        la, lb = list(v), list(v0)
        return len(la) == len(lb) and zand([erased_equal(L, a, b) for a, b in zip(la, lb)]) if len(la) <= 1 else False
    return veq(v, v0)


def obligations(tier):
    obs = []
    shapes = SHAPES[:5] if tier == "quick" else SHAPES
    for d in ("PVL", "ODL", "PDS3", "Omni"):
        for w in ("top", "seq", "set", "nested", "quantity", "seqquantity", "blocks", "seqwhole", "setwhole", "seqboth"):
            if w in ("seqwhole", "setwhole", "seqboth") and d in ("ODL", "PDS3"):
                continue          # ODL allows units after numbers only
            for sh in shapes:
                obs.append(Hooks(dialect=d, where=w, shape=sh))
            obs.append(Hooks(dialect=d, where=w, shape=shapes[0], order="substitutes-first"))
            if w in ("top", "seqquantity", "blocks") or tier != "quick":
                for via in ("separate", "decoder_only", "loads"):
                    obs.append(Hooks(dialect=d, where=w, shape=shapes[1], via=via))
    return obs


def main(tier="quick", seed=0, jobs=16, only=None, time_scale=1.0):
    obs = obligations(tier)
    if only:
        obs = [o for o in obs if only in o.name]
    return run_property("C18", obs, tier, seed, jobs=jobs, time_scale=time_scale)
