"""C16 - parser, decoder and encoder instances carry no state between calls.

Inductive form for parsers: an instance whose mutable attributes are put into
an ARBITRARY state (errors = a list of 0-2 symbolic integers, doc = a symbolic
string) parses a text of the C08 family (complete, repaired or failing, with a
symbolic layout); module, module.errors, exception type and the attributes
afterwards must equal those of a fresh instance - so any history reduces to one
step.  Plus explicit two-call histories for parsers (failing then succeeding,
repairing then clean), encoders (after an encode that succeeded, raised
mid-way, or converted a PDS3 group) and decoders, and the long-lived shared
instances of pvl_validate.dialects / pvl_translate.formats driven twice.
"""
from ..core import SymStr, SymInt, B, zand, znot
from .common import Harness, Outcome, dialect, run_property, int_eq, str_eq, veq
from . import c08, rt

PARSERS = ("Omni", "PVL", "ODL", "PDS3", "ISIS")


def outcome_of(L, fn):
    try:
        return ("ok", fn())
    except L.exceptions.LexerError:
        return ("LexerError", None)
    except L.exceptions.ParseError:
        return ("ParseError", None)


def mod_eq(a, b):
    """two parse results are the same module: classes, order, values, placeholders with their line"""
    if type(a).__name__ != type(b).__name__:
        return False
    ia, ib = list(a.items()), list(b.items())
    if len(ia) != len(ib):
        return False
    conds = []
    for (k1, v1), (k2, v2) in zip(ia, ib):
        if k1 != k2:
            return False
        if hasattr(v1, "items") or hasattr(v2, "items"):
            if not (hasattr(v1, "items") and hasattr(v2, "items")):
                return False
            conds.append(mod_eq(v1, v2))
        elif type(v1).__name__ == "EmptyValueAtLine" or type(v2).__name__ == "EmptyValueAtLine":
            if type(v1).__name__ != type(v2).__name__:
                return False
            conds.append(int_eq(v1.lineno, v2.lineno))
        else:
            conds.append(veq(v1, v2))
    return zand(conds)


def ints_eq(a, b):
    a, b = list(a), list(b)
    if len(a) != len(b):
        return False
    return zand([int_eq(x, y) for x, y in zip(a, b)])


def make_parser(L, name):
    if name == "Omni":
        return L.parser.OmniParser()
    return dialect(L, name)["parser"]


class ParserState(c08.Gaps):
    """one parse from an arbitrary instance state"""
    prop = "C16"
    must_reach = ("same",)
    functions = ("pvl.parser.PVLParser.parse", "pvl.parser.OmniParser.parse", "pvl.parser.PVLParser.__init__",
                 "pvl.parser.OmniParser._empty_value", "pvl.parser.PVLParser.parse_module") + c08.Gaps.functions

    @property
    def bounds(self):
        return ("parser %s with errors = any list of %d integers in [1, 9] and doc = any string of length %d, then "
                "template %s with every removal pattern and layout" % (self.dialect, self.ne, self.nd, self.template))

    def inputs(self, ctx):
        inp = c08.Gaps.inputs(self, ctx)
        if isinstance(inp["ws"], str):
            pass
        inp["errors"] = [SymInt(ctx.fresh_int("e%d" % i, 1, 9)) for i in range(self.ne)]
        inp["doc"] = ctx.fresh_str(self.nd, "doc", ((10, 10), (32, 32), (61, 61), (97, 97)))
        return inp

    def text_of(self, inp):
        rm = list(inp["rm"])
        ws = inp["ws"]
        wcs = list(ws) if isinstance(ws, str) else [SymStr((c,)) if not isinstance(c, str) else c for c in ws.cs]
        text = ""
        for i, (t, ai, is_eq) in enumerate(self.tokens(rm)):
            if i:
                text = text + wcs[i - 1]
            text = text + t
        return text

    def prop_fn(self, L, inp):
        text = self.text_of(inp)
        used = make_parser(L, self.dialect)
        used.errors = list(inp["errors"])
        used.doc = inp["doc"]
        fresh = make_parser(L, self.dialect)
        r1 = outcome_of(L, lambda: used.parse(text))
        r2 = outcome_of(L, lambda: fresh.parse(text))
        conds = [r1[0] == r2[0]]
        if r1[0] == "ok" and r2[0] == "ok":
            conds += [mod_eq(r1[1], r2[1]), ints_eq(r1[1].errors, r2[1].errors)]
        conds += [ints_eq(used.errors, fresh.errors), str_eq(used.doc, fresh.doc)]
        return Outcome("same", zand(conds), {"text": text, "used": r1[0], "fresh": r2[0],
                                             "used_errors": list(used.errors), "fresh_errors": list(fresh.errors)})


FIRST_TEXTS = {
    "repairing": "x =\ny = 1\nz =\nEND\n",
    "failing": "GROUP = g\n a = (1, \nEND_GROUP\n",
    "failing2": "a = 1\n= = =\n",
    "clean": "p = 1\nq = (1, 2)\nEND\n",
    "tail": "p = 1\nEND\nxyz = = (",
}


class ParserHistory(ParserState):
    """an explicit earlier call, then the symbolic one"""

    @property
    def bounds(self):
        return "parser %s: first %r, then template %s with every removal pattern and layout" % (
            self.dialect, FIRST_TEXTS[self.first], self.template)

    def inputs(self, ctx):
        return c08.Gaps.inputs(self, ctx)

    def prop_fn(self, L, inp):
        text = self.text_of(inp)
        used = make_parser(L, self.dialect)
        outcome_of(L, lambda: used.parse(FIRST_TEXTS[self.first]))
        fresh = make_parser(L, self.dialect)
        r1 = outcome_of(L, lambda: used.parse(text))
        r2 = outcome_of(L, lambda: fresh.parse(text))
        conds = [r1[0] == r2[0]]
        if r1[0] == "ok" and r2[0] == "ok":
            conds += [mod_eq(r1[1], r2[1]), ints_eq(r1[1].errors, r2[1].errors)]
        conds += [ints_eq(used.errors, fresh.errors), str_eq(used.doc, fresh.doc)]
        return Outcome("same", zand(conds), {"text": text, "used": r1[0], "fresh": r2[0],
                                             "used_errors": list(used.errors), "fresh_errors": list(fresh.errors)})


class EncoderHistory(Harness):
    prop = "C16"
    must_reach = ("same",)
    functions = ("pvl.encoder.*Encoder.encode", "pvl.encoder.PVLEncoder.__init__", "pvl.encoder.PVLEncoder.add_quantity_cls")

    @property
    def alphabet(self):
        return rt.ALPHA[self.dialect]

    @property
    def bounds(self):
        return "encoder %s: first encode of a module that %s, then shape %s with a string leaf of length %d" % (
            self.dialect, self.first, self.shape, self.n)

    def inputs(self, ctx):
        return {"x": rt.leaf_inputs(ctx, "str", self.n, self.dialect)}

    def first_module(self, L):
        c = rt.C(L)
        if self.first == "succeeds":
            return c.M([("a", 1), ("g", c.G([("b", "two words")])), ("o", c.O([("c", [1, 2])]))])
        if self.first == "raises":
            return c.M([("a", 1), ("g", c.G([("b", object())]))])
        if self.first == "converts":
            return c.M([("g", c.G([("b", 1)])), ("g", c.G([("c", 2), ("c", 3)]))])
        # a module with valid groups and no object whose encoding fails BEFORE the first group is reached
        if self.first == "raises_before_group":
            return c.M([("s", []), ("g", c.G([("b", 1)])), ("h", c.G([("c", 2)]))])
        if self.first == "raises_before_group2":
            return c.M([("a", object()), ("g", c.G([("b", 1)]))])
        # failures part-way through a value, at different places of the encoder
        if self.first == "raises_in_seq":
            return c.M([("a", [1, "both \" and '", 3])])
        if self.first == "raises_in_inner_seq":
            return c.M([("a", [[1, 2], [3, object()]])])
        if self.first == "raises_in_set":
            return c.M([("a", c.fset([object()]))])
        if self.first == "raises_in_quantity":
            return c.M([("a", [c.Q(1, "m"), c.Q(object(), "both \" and '")])])
        if self.first == "raises_in_block":
            return c.M([("o", c.O([("g", c.G([("a", 1), ("b", [object()])]))])), ("z", 1)])
        raise KeyError(self.first)

    def second_module(self, L, x):
        c = rt.C(L)
        # modules some dialects must refuse, next to the shared shapes
        if self.shape == "seq3d":
            return c.M([("a", [[[1, 2], [3, 4]], [[5, 6], [7, x]]])])
        if self.shape == "seqnone":
            return c.M([("a", [1, None, x])])
        if self.shape == "emptyinner":
            return c.M([("a", [[], [x]])])
        if self.shape == "setseq":
            return c.M([("a", c.fset([x])), ("b", [c.Q(x, "m")])])
        return rt.shape_module(L, self.shape, x)

    def prop_fn(self, L, inp):
        x = inp["x"]
        d = dialect(L, self.dialect)
        used, fresh = d["encoder"](), d["encoder"]()
        try:
            used.encode(self.first_module(L))
        except (ValueError, TypeError):
            pass

        def enc(E):
            try:
                return ("ok", E.encode(self.second_module(L, x)))
            except ValueError:
                return ("ValueError", None)
            except TypeError:
                return ("TypeError", None)
        r1, r2 = enc(used), enc(fresh)
        ok = r1[0] == r2[0] and (r1[0] != "ok" or str_eq(r1[1], r2[1]))
        return Outcome("same", ok, {"used": r1[1], "fresh": r2[1]})


class DecoderHistory(Harness):
    prop = "C16"
    must_reach = ("same",)
    functions = ("pvl.decoder.*Decoder.decode", "pvl.decoder.*Decoder.decode_simple_value")

    @property
    def alphabet(self):
        return {"PVL": "latin", "ODL": "ascii", "PDS3": "ascii", "Omni": "omni"}[self.dialect]

    @property
    def bounds(self):
        return "decoder %s: first decode(%r), then every string of length %d" % (self.dialect, self.first, self.n)

    def inputs(self, ctx):
        return {"s": ctx.fresh_str(self.n, "s")}

    def prop_fn(self, L, inp):
        s = inp["s"]
        cls = {"PVL": L.decoder.PVLDecoder, "ODL": L.decoder.ODLDecoder, "PDS3": L.decoder.PDSLabelDecoder,
               "Omni": L.decoder.OmniDecoder}[self.dialect]
        used, fresh = cls(), cls()
        try:
            used.decode(self.first)
        except ValueError:
            pass

        def dec(D):
            try:
                return ("ok", D.decode(s))
            except ValueError:
                return ("ValueError", None)
        r1, r2 = dec(used), dec(fresh)
        ok = r1[0] == r2[0] and (r1[0] != "ok" or veq(r1[1], r2[1]))
        return Outcome("same", ok, {"used": r1[1], "fresh": r2[1]})


class ToolHistory(ParserState):
    """the module-level instances of pvl_validate.dialects, driven twice"""
    functions = ("pvl.pvl_validate.pvl_flavor", "pvl.pvl_validate.dialects (shared instances)", "pvl.loads", "pvl.dumps")

    @property
    def bounds(self):
        return "pvl_validate.dialects[%s]: first %r, then template %s (every removal pattern and layout)" % (
            self.dialect, FIRST_TEXTS[self.first], self.template)

    def inputs(self, ctx):
        return c08.Gaps.inputs(self, ctx)

    def prop_fn(self, L, inp):
        text = self.text_of(inp)
        tool = L.tool("pvl_validate")
        row = tool.dialects[self.dialect if self.dialect != "Omni" else "Omni"]
        # first file
        outcome_of(L, lambda: L.pvl.loads(FIRST_TEXTS[self.first], parser=row["parser"]))
        r1 = outcome_of(L, lambda: L.pvl.loads(text, parser=row["parser"]))
        kw = {"Omni": ("OmniParser", "OmniGrammar", "OmniDecoder"), "ISIS": ("OmniParser", "ISISGrammar", "OmniDecoder"),
              "PVL": ("PVLParser", "PVLGrammar", "PVLDecoder"), "ODL": ("ODLParser", "ODLGrammar", "ODLDecoder"),
              "PDS3": ("ODLParser", "PDSGrammar", "PDSLabelDecoder")}[self.dialect]
        G = getattr(L.grammar, kw[1])()
        D = getattr(L.decoder, kw[2])(grammar=G)
        fresh = getattr(L.parser, kw[0])(grammar=G, decoder=D)
        r2 = outcome_of(L, lambda: fresh.parse(text))
        conds = [r1[0] == r2[0]]
        if r1[0] == "ok" and r2[0] == "ok":
            conds += [mod_eq(r1[1], r2[1]), ints_eq(r1[1].errors, r2[1].errors)]
        # put the shared instance back into a clean state for the next path of this process
        row["parser"].errors = []
        row["parser"].doc = ""
        return Outcome("same", zand(conds), {"text": text, "used": r1[0], "fresh": r2[0]})


def obligations(tier):
    obs = []
    quick = tier == "quick"
    temps = ["top3", "group", "values", "semi"] if quick else list(c08.TEMPLATES)
    for p in PARSERS:
        for t in temps:
            if p != "Omni" and t not in ("top3", "group"):
                continue
            for ne, nd in ((0, 0), (1, 2), (2, 3)):
                obs.append(ParserState(dialect=p, template=t, ne=ne, nd=nd))
        for first in FIRST_TEXTS:
            for t in (("top3", "group") if quick else temps):
                obs.append(ParserHistory(dialect=p, template=t, first=first))
    for d in ("PVL", "ODL", "PDS3", "ISIS"):
        for first in ("succeeds", "raises", "converts", "raises_before_group", "raises_before_group2"):
            for shape in ("group", "grouponly", "seq", "nested"):
                obs.append(EncoderHistory(dialect=d, first=first, shape=shape, n=1))
        for first in ("raises_in_seq", "raises_in_inner_seq", "raises_in_set", "raises_in_quantity", "raises_in_block"):
            for shape in ("seq3d", "seqnone", "emptyinner", "setseq", "nestedbad", "quant") + (() if quick else ("seq2", "dupgroup")):
                obs.append(EncoderHistory(dialect=d, first=first, shape=shape, n=1))
    for d in ("PVL", "ODL", "PDS3", "Omni"):
        for first in ("1", '"x"', "2001-01-01", "???", "16#FF#"):
            obs.append(DecoderHistory(dialect=d, first=first, n=2))
    for d in ("PDS3", "ODL", "PVL", "ISIS", "Omni"):
        for first in ("repairing", "failing"):
            obs.append(ToolHistory(dialect=d, template="top3", first=first))
    return obs


def main(tier="quick", seed=0, jobs=16, only=None, time_scale=1.0):
    obs = obligations(tier)
    if only:
        obs = [o for o in obs if only in o.name]
    return run_property("C16", obs, tier, seed, jobs=jobs, time_scale=time_scale)
