"""Symbolic token streams for C05/C06: the real parser is driven through its public
``lexer_fn`` parameter by a generator that follows the documented send/throw
protocol of pvl.lexer.lexer and takes each token LAZILY from a small vocabulary
by a solver-chosen integer; positions the parser never pulls stay unconstrained.

Also: an independent recogniser/evaluator of the statement grammar over the
same vocabulary, written from the Blue Book / ODL BNF (no pvl code).
"""
from ..core import SymInt, Ctx

VOCAB = ["a", "b", "=", "1", '"q"', ";", "(", ")", ",", "{", "}", "<m>", "/* c */", "GROUP", "END_GROUP", "OBJECT",
         "END_OBJECT", "BEGIN_GROUP", "END", "<m <n>"]
BADUNITS = "<m <n>"        # what the lexer yields for an unterminated units expression followed by another one
EOS = len(VOCAB)
COMMENT = "/* c */"
BEGIN = {"GROUP": "END_GROUP", "OBJECT": "END_OBJECT", "BEGIN_GROUP": "END_GROUP"}
ENDS = ("END_GROUP", "END_OBJECT")
KEYWORDS = tuple(BEGIN) + ENDS + ("END",)
NAMES = ("a", "b")


class Hang(Exception):
    """the parser made more generator operations than any terminating parse of this many tokens can need"""


class LazyStream:
    """token choices made on demand; concretises to the list of indices pulled (EOS for the rest);
    *prefix* is a list of concrete token indices that come first"""

    def __init__(self, ctx, k, prefix=()):
        self.ctx, self.k = ctx, k + len(prefix)
        self.chosen = list(prefix)

    def get(self, i):
        while len(self.chosen) <= i:
            j = len(self.chosen)
            if j >= self.k:
                self.chosen.append(EOS)
            else:
                self.chosen.append(int(SymInt(self.ctx.fresh_int("t%d" % j, 0, EOS))))
        return self.chosen[i]

    def __concretize__(self, m):
        return list(self.chosen) + [EOS] * (self.k - len(self.chosen))


class Counter:
    def __init__(self, limit):
        self.ops, self.limit = 0, limit

    def tick(self):
        self.ops += 1
        if self.ops > self.limit:
            raise Hang("more than %d generator operations" % self.limit)


def make_lexer(L, stream, picked, counter):
    """a lexer_fn with the protocol of pvl.lexer.lexer; *stream* is a LazyStream or a list of indices"""
    get = stream.get if hasattr(stream, "get") else (lambda i: stream[i] if i < len(stream) else EOS)

    def lx(s, g=None, d=None):
        i = 0
        try:
            while True:
                counter.tick()
                idx = get(i)
                if idx == EOS:
                    picked.append(None)
                    return
                text = VOCAB[idx]
                picked.append(text)
                tok = L.token.Token(text, grammar=g, decoder=d, pos=i)
                t = yield tok
                while t is not None:
                    counter.tick()
                    yield None
                    t = yield t
                i += 1
        except ValueError as err:
            raise L.exceptions.LexerError(str(err) if not isinstance(err, L.exceptions.LexerError) else "nested",
                                          " ".join(x for x in picked if x), max(0, i), picked[-1] or "" if picked else "")
    return lx


# --------------------------------------------------------------------------- reference recogniser
class Ill(Exception):
    pass


class EMPTY:
    def __repr__(self):
        return "EMPTY"


class Ref:
    """recursive descent over the token list (comments dropped), per dialect in {'PVL', 'ODL', 'Omni'}"""

    def __init__(self, toks, dialect):
        self.t = [x for x in toks if x != COMMENT]
        self.i = 0
        self.d = dialect
        self.consumed_end = False
        # ISIS does not know the BEGIN_ forms: there the word is an ordinary name / unquoted string
        self.begin = dict(BEGIN) if dialect != "ISIS" else {k: v for k, v in BEGIN.items() if not k.startswith("BEGIN_")}
        self.names = NAMES if dialect != "ISIS" else NAMES + ("BEGIN_GROUP",)
        self.keywords = tuple(self.begin) + ENDS + ("END",)

    def peek(self):
        return self.t[self.i] if self.i < len(self.t) else None

    def next(self):
        x = self.peek()
        self.i += 1
        return x

    def module(self):
        items = self.statements(top=True)
        return items

    def statements(self, top, closing=None):
        items = []
        while True:
            x = self.peek()
            if x is None:
                if not top:
                    raise Ill("block left open at the end of the text")
                return items
            if x == "END":
                if not top:
                    raise Ill("END inside an open block")
                self.next()
                self.consumed_end = True
                return items
            if x in ENDS:
                if top:
                    raise Ill("end statement without a begin statement")
                return items
            if x in self.begin:
                items.append(self.block())
            elif x in self.names:
                items.extend(self.assignment())
            else:
                raise Ill("stray token %r between statements" % x)

    def delimiter(self):
        if self.peek() == ";":
            self.next()

    def block(self):
        kw = self.next()
        if self.next() != "=":
            raise Ill("begin statement without '='")
        name = self.next()
        if name not in self.names:
            raise Ill("begin statement without a block name")
        self.delimiter()
        items = self.statements(top=False)
        end = self.next()
        if end != self.begin[kw]:
            raise Ill("block closed by the wrong end statement")
        if self.peek() == "=":
            self.next()
            if self.next() != name:
                raise Ill("end statement names another block")
        self.delimiter()
        return (name, ("group" if "GROUP" in kw else "object", items))

    def assignment(self):
        """returns a list of (name, value) - two items when the default loader re-reads a value as a name"""
        name = self.next()
        if self.next() != "=":
            raise Ill("parameter name without '='")
        x = self.peek()
        if self.d == "Omni" and (x is None or x in self.keywords or x == ";"):
            self.delimiter()
            return [(name, EMPTY)]
        v = self.value()
        if self.d == "Omni" and self.peek() == "=" and v in self.names:
            # missing value: what looked like the value is the next parameter name
            self.i -= 1
            return [(name, EMPTY)] + self.assignment()
        self.delimiter()
        return [(name, v)]

    def value(self):
        x = self.next()
        if x == "1":
            v = 1
        elif x == '"q"':
            v = "q"
        elif x in self.names:
            v = x
        elif x == "(":
            v = self.items(")")
        elif x == "{":
            v = ("set", self.items("}"))
        else:
            raise Ill("%r where a value is expected" % (x,))
        if self.peek() == "<m>":
            if self.d != "ODL" or (isinstance(v, int) and not isinstance(v, bool)):
                self.next()
                return ("quantity", v, "m")
        return v

    def items(self, close):
        out = []
        if self.peek() == close:
            self.next()
            return out
        while True:
            out.append(self.value())
            x = self.next()
            if x == close:
                return out
            if x != ",":
                raise Ill("%r inside a set or sequence" % (x,))


def reference(toks, dialect):
    """('ill', reason) or ('ok', items, number of tokens consumed incl. END)"""
    r = Ref(toks, dialect)
    try:
        items = r.module()
    except Ill as e:
        return ("ill", str(e))
    return ("ok", items, r.i)
