"""C07 - load, dump, load is stable: normalisation is idempotent.

t0 (a template with symbolic parts, read by the default loader) -> m1;
t1 = dumps(m1, encoder E); m2 = loads(t1); t2 = dumps(m2, E).  Assertions:
m2 equals the spec-side normalisation of m1 for E's dialect (the C01/C02
oracle) and t1 == t2 as strings.  The templates produce the values that only
the loader makes: a missing value (placeholder), a leap-second time with
symbolic digits, units on a sequence, block keywords in symbolic letter case,
quoted strings whose content is symbolic (so that once unquoted it may look
like a keyword or a number), symbolic unquoted values.  Encoder refusal is
allowed.
"""
from ..core import SymStr, B, zand
from .common import Harness, Outcome, dialect, run_property, str_eq
from . import rt

ENCODERS = ("PVL", "ODL", "PDS3", "ISIS")


# times with zone offsets and fractions, day-of-year dates, based integers, reals whose repr uses an exponent
VALUE_SHAPES = ("1d:20:30s0d:d0", "10:2d:30.d5dsd", "2001-01-0dT10:20:30s0d:30", "2001-36dT10:0d:59.dZ", "d.dEsd", "sd#dd#",
                "0.0000d", "d0000000000000000.0", "dd:30Z", "200d-12-31T00:00:00", "dE1d", "dd#sd#", "20dd-ddd", "s.d")


class Stable(Harness):
    prop = "C07"
    alphabet = "ascii"
    must_reach = ("stable", "refused", "t0-rejected")
    functions = ("pvl.loads", "pvl.dumps", "pvl.parser.OmniParser.*", "pvl.decoder.OmniDecoder.*",
                 "pvl.encoder.*Encoder.encode", "pvl.parser.EmptyValueAtLine", "pvl.decoder.PVLDecoder.is_leap_seconds",
                 "pvl.decoder.ODLDecoder.decode_quoted_string")

    @property
    def bounds(self):
        if self.template == "shaped":
            return "value of shape %s (d = every digit, s = + or -) as a scalar and inside a sequence, encoder %s" % (
                self.shape, self.encoder)
        return "template %s with %d symbolic character(s), encoder %s" % (self.template, self.n, self.encoder)

    def inputs(self, ctx):
        t, n = self.template, self.n
        if t == "quoted":
            s = ctx.fresh_str(n, "q")
            for c in s.cs:
                ctx.assume(c.z != 34)
            return {"x": s}
        if t == "unquoted":
            return {"x": SymStr([ctx.fresh_char("u%d" % i, ((33, 126),)) for i in range(n)])}
        if t in ("leap", "leapdate"):
            return {"x": SymStr([ctx.fresh_char("d%d" % i, ((48, 57),)) for i in range(n)])}
        if t == "keywords":
            def cased(word, h):
                return SymStr([ctx.fresh_char("%s%d" % (h, i), ((ord(ch), ord(ch)), (ord(ch.lower()), ord(ch.lower()))))
                               if ch.isalpha() else ch for i, ch in enumerate(word)])
            return {"x": cased("GROUP", "b"), "y": cased("END_GROUP", "e"), "z": cased("END", "z")}
        if t == "wrapquote":
            from ..core import SymInt
            return {"x": SymStr([ctx.fresh_char("w%d" % i, ((10, 10), (32, 32))) for i in range(n)]),
                    "width": SymInt(ctx.fresh_int("width", 40, 100))}
        if t in ("empty", "seqUnits", "mixed", "casekeys", "dupgroups"):
            return {"x": SymStr([ctx.fresh_char("w%d" % i, ((10, 10), (32, 32))) for i in range(n)])}
        if t == "quotedws":
            return {"x": SymStr([ctx.fresh_char("w%d" % i, ((9, 13), (32, 32))) for i in range(3)])}
        if t == "shaped":
            # a value of a fixed shape: d = every digit, s = + or -, the rest literal
            return {"x": SymStr([ctx.fresh_char("d%d" % i, ((48, 57),)) if ch == "d" else
                                 (ctx.fresh_char("s%d" % i, ((43, 43), (45, 45))) if ch == "s" else ch)
                                 for i, ch in enumerate(self.shape)])}
        raise KeyError(t)

    def known(self, L, inp):
        """D35 (see C05): a ';' directly followed by '=' makes the default loader invent a parameter named ''"""
        if self.template != "unquoted":
            return ()
        from ..core import zor, zand, ch_eq
        es = list(inp["x"]) if isinstance(inp["x"], str) else list(SymStr.of(inp["x"]).cs)
        # ... and so does the closing quote of a quoted string followed (after optional white space) by '='
        from ..core import ch_in, chars_to_ranges
        q, ws = chars_to_ranges("\"';"), chars_to_ranges(" \t\n\r\v\f")
        alts = []
        for i in range(len(es)):
            for j in range(i + 1, len(es)):
                alts.append(zand([ch_in(es[i], q), ch_eq(es[j], "=")] + [ch_in(es[k], ws) for k in range(i + 1, j)]))
        return (("D35", zor(alts)),)

    def text0(self, inp):
        t, x = self.template, inp["x"]
        if t == "quoted":
            return 'a = "' + x + '"\nb = 2\nEND\n'
        if t == "unquoted":
            return "a = " + x + "\nb = 2\nEND\n"
        if t == "quotedws":
            # every white-space character at three places INSIDE a quoted string (alone between words, two in a row)
            es = list(x) if isinstance(x, str) else [SymStr((c,)) if not isinstance(c, str) else c for c in x.cs]
            return 'a = "p' + es[0] + "q" + es[1] + es[2] + 'r"\nb = (1, "s' + es[0] + 't")\nEND\n'
        if t == "shaped":
            return "t = " + x + "\nu = (1, " + x + ")\nEND\n"
        if t == "leap":
            # HH:MM:60 with symbolic hour/minute digits (n = 4) and optionally a fraction digit (n = 5)
            es = list(x) if isinstance(x, str) else [SymStr((c,)) if not isinstance(c, str) else c for c in x.cs]
            s = es[0] + es[1] + ":" + es[2] + es[3] + ":60"
            if len(es) > 4:
                s = s + "." + es[4]
            return "t = " + s + "\nEND\n"
        if t == "leapdate":
            es = list(x) if isinstance(x, str) else [SymStr((c,)) if not isinstance(c, str) else c for c in x.cs]
            return "t = 20" + es[0] + es[1] + "-12-31T23:59:60Z\nu = 1\nEND\n"
        if t == "keywords":
            return inp["x"] + " = g\n a = 1\n" + inp["y"] + " = g\nb = 2\n" + inp["z"] + "\n"
        ws = list(x) if isinstance(x, str) else [SymStr((c,)) if not isinstance(c, str) else c for c in x.cs]
        w = lambda i: ws[i] if i < len(ws) else " "
        if t == "empty":
            return "a =" + w(0) + "b = 2" + w(1) + "c =" + w(2) + "GROUP = g" + w(3) + "d =" + w(4) + "END_GROUP" + w(5) + "e =" + w(6) + "END"
        if t == "seqUnits":
            return "a = (1, 2)" + w(0) + "<m>" + w(1) + "b = 3 <km/s>" + w(2) + "c = {1} <K>" + w(3) + "END"
        if t == "wrapquote":
            # long sequences / sets of quoted strings that contain the OTHER quote character and ' - ':
            # the dump must wrap them, and may only do so between elements
            A = "lorem ip'sum dolor - sit amet"
            Dq = 'lorem ip"sum dolor - sit amet'
            return ('k = ("' + A + '",' + w(0) + '"x' + w(1) + "y\", '" + Dq + "', \"lorem ipsum dolor sit amet\", \"" + A +
                    '")\nj = {\'' + Dq + "', \"" + A + '", "x y"}\nEND\n')
        if t == "casekeys":
            # parameter names that differ only in letter case inside a group (an object is present, so PDS3 keeps groups)
            return ("OBJECT = o" + w(0) + "x = 1" + w(1) + "END_OBJECT\nGROUP = g\n a = 1" + w(2) + "A = 2\n b = 3\nEND_GROUP\n"
                    "Key = 1\nKEY = 2\nEND\n")
        if t == "dupgroups":
            # sibling groups with equal names, no object: the first a valid PDS3 group, the later ones not (a block
            # inside, keys differing in case) - the PDS3 encoder converts one of them
            return ("GROUP = band" + w(0) + "c = 1" + w(1) + "END_GROUP\nGROUP = band" + w(2) + "w = 2\n GROUP = f" + w(3) +
                    "x = 1\n END_GROUP\nEND_GROUP\nGROUP = band\n k = 1" + w(4) + "K = 2\nEND_GROUP\nv = 3\nEND\n")
        if t == "mixed":
            return "a = 2#101#" + w(0) + "b = 'x  y'" + w(1) + "c = -16#F#" + w(2) + "d = 1.50" + w(3) + "e = TRUE" + w(4) + "END"
        raise KeyError(t)

    def prop_fn(self, L, inp):
        t0 = self.text0(inp)
        kw = {}
        if self.template == "unquoted":
            # the symbolic characters may spell parameter names: containers that keep only the item list
            from .common import list_classes
            M, G, O = list_classes(L)
            kw = dict(module_class=M, group_class=G, object_class=O)
        try:
            m1 = L.pvl.loads(t0, **kw)
        except (L.exceptions.LexerError, L.exceptions.ParseError):
            return Outcome("t0-rejected", True, {"t0": t0})
        d = dialect(L, self.encoder)
        ekw = {"width": inp["width"]} if "width" in inp else {}      # a SYMBOLIC line width where wrapping is the subject
        E = d["encoder"](**ekw)
        exp = rt.tree(L, m1, self.encoder, reader="omni")
        try:
            t1 = L.pvl.dumps(m1, encoder=E)
        except (ValueError, TypeError):
            return Outcome("refused", True, {"t0": t0})
        try:
            m2 = L.pvl.loads(t1, **kw)
        except (L.exceptions.LexerError, L.exceptions.ParseError) as e:
            return Outcome("t1-unreadable", False, {"t0": t0, "t1": t1})
        try:
            t2 = L.pvl.dumps(m2, encoder=d["encoder"](**ekw))
        except (ValueError, TypeError):
            return Outcome("second-dump-refused", False, {"t0": t0, "t1": t1})
        ok = zand([rt.match(m2, exp), str_eq(t1, t2), list(m2.errors) == []])
        return Outcome("stable", ok, {"t0": t0, "t1": t1, "t2": t2, "m2": rt.snapshot(m2)})


def obligations(tier):
    obs = []
    quick = tier == "quick"
    for e in ENCODERS:
        for n in ((0, 1, 2) if quick else (0, 1, 2, 3)):
            obs.append(Stable(encoder=e, template="quoted", n=n))
        for n in ((1, 2) if quick else (1, 2, 3)):
            obs.append(Stable(encoder=e, template="unquoted", n=n))
        obs.append(Stable(encoder=e, template="leap", n=4))
        obs.append(Stable(encoder=e, template="leap", n=5))
        obs.append(Stable(encoder=e, template="leapdate", n=2))
        obs.append(Stable(encoder=e, template="keywords", n=0))
        obs.append(Stable(encoder=e, template="empty", n=7))
        obs.append(Stable(encoder=e, template="seqUnits", n=4))
        obs.append(Stable(encoder=e, template="mixed", n=5))
        obs.append(Stable(encoder=e, template="wrapquote", n=2))
        obs.append(Stable(encoder=e, template="casekeys", n=3))
        obs.append(Stable(encoder=e, template="dupgroups", n=5))
        obs.append(Stable(encoder=e, template="quotedws", n=3))
        for sh in VALUE_SHAPES if not quick else VALUE_SHAPES[:8]:
            obs.append(Stable(encoder=e, template="shaped", n=0, shape=sh))
    return obs


def main(tier="quick", seed=0, jobs=16, only=None, time_scale=1.0):
    obs = obligations(tier)
    if only:
        obs = [o for o in obs if only in o.name]
    return run_property("C07", obs, tier, seed, jobs=jobs, time_scale=time_scale)
