"""C14 - date and time values keep their type, instant and time-zone meaning.

Decode direction: a text of a fixed temporal *shape* whose digits are all
symbolic (so every field value, valid or not, is covered), per dialect, through
decoder.decode_datetime and through loads("T = <text>").  The harness's own
calendar (linear integer arithmetic) says whether the written fields are a real
date/time and what the expected value is.

Encode direction: a date / time / datetime proxy whose fields are all symbolic
(any valid calendar value; zone naive, UTC, or any whole-minute offset within
+-14 h) through the real encoder and back through the decoder of the same
dialect: same type and same instant at the same precision - or ValueError.
"""
import datetime as _dt

from ..core import SymStr, SymInt, B, I, zand, zor, znot, ziff, zimp, mkint, Ctx
from .common import Harness, Outcome, dialect, run_property, int_eq, kind, str_eq, is_strlike, tz_offset_minutes

try:
    import z3
    from .. import cmodels as cm
except Exception:          # pragma: no cover
    z3 = None

FUNCS = ("pvl.decoder.PVLDecoder.decode_datetime", "pvl.decoder.ODLDecoder.decode_datetime",
         "pvl.decoder.PDSLabelDecoder.decode_datetime", "pvl.decoder.OmniDecoder.decode_datetime",
         "pvl.decoder.PVLDecoder.is_leap_seconds", "pvl.decoder.for_try_except",
         "pvl.encoder.PVLEncoder.encode_date/encode_time/encode_datetime", "pvl.encoder.ODLEncoder.encode_time",
         "pvl.encoder.PDSLabelEncoder.encode_time", "pvl.lexer.lex_continue (sign inside a date-time lexeme)")
STUBS = ("datetime.strptime (regex from _strptime.TimeRE + calendar in LIA)", "date/time.__format__ (strftime)",
         "timedelta.__str__", "round(us / 1000) over the rationals (lemma L1)", "int(str)")

CUM = (0, 31, 59, 90, 120, 151, 181, 212, 243, 273, 304, 334, 365)


def sym(x):
    return not isinstance(x, int)


def zi(x):
    return x if isinstance(x, int) else I(x)


def leap(y):
    if isinstance(y, int):
        return y % 4 == 0 and (y % 100 != 0 or y % 400 == 0)
    y = zi(y)
    return z3.And(y % 4 == 0, z3.Or(y % 100 != 0, y % 400 == 0))


def dim(y, mo):
    """days in month"""
    if isinstance(y, int) and isinstance(mo, int):
        if mo == 2:
            return 29 if leap(y) else 28
        return 30 if mo in (4, 6, 9, 11) else 31
    y, mo = zi(y), zi(mo)
    t = z3.IntVal(31)
    for k in (4, 6, 9, 11):
        t = z3.If(mo == k, z3.IntVal(30), t)
    return z3.If(mo == 2, z3.If(leap(y), z3.IntVal(29), z3.IntVal(28)), t)


def md_from_doy(y, doy):
    if isinstance(y, int) and isinstance(doy, int):
        lp = 1 if leap(y) else 0
        mo = 1
        for k in range(2, 13):
            if doy > CUM[k - 1] + (lp if k > 2 else 0):
                mo = k
        return mo, doy - (CUM[mo - 1] + (lp if mo > 2 else 0))
    y, doy = zi(y), zi(doy)
    lp = z3.If(leap(y), 1, 0)
    mo, d = z3.IntVal(1), doy
    for k in range(2, 13):
        start = z3.IntVal(CUM[k - 1]) + (lp if k > 2 else 0)
        mo = z3.If(doy > start, z3.IntVal(k), mo)
        d = z3.If(doy > start, doy - start, d)
    return mkint(mo), mkint(d)


def band(*xs):
    return zand(list(xs))


def le(a, b):
    r = a <= b
    return B(r)


def eq(a, b):
    r = a == b
    return B(r)


def num(text, a, b):
    """integer value of text[a:b] (ASCII digits) as int or SymInt"""
    cs = SymStr.of(text).cs[a:b] if not isinstance(text, str) else text[a:b]
    v = 0
    for c in cs:
        v = v * 10 + ((ord(c) - 48) if isinstance(c, str) else (c.z - 48))
    return v if isinstance(v, int) else mkint(v)


# shape: d = symbolic digit.  Fields are located by position.
DATE_SHAPES = {"ymd": "dddd-dd-dd", "yj": "dddd-ddd"}
TIME_SHAPES = {"hm": "dd:dd", "hms": "dd:dd:dd", "hmsf1": "dd:dd:dd.d", "hmsf3": "dd:dd:dd.ddd", "hmsf6": "dd:dd:dd.dddddd",
               "hmsf2": "dd:dd:dd.dd", "hmsf4": "dd:dd:dd.dddd", "hmsf5": "dd:dd:dd.ddddd"}
ZONES = {"": "", "Z": "Z", "+h": "+d", "-hh": "-dd", "+hhmm": "+dddd", "-hh:mm": "-dd:dd", "z": "z"}


def parse_shape(text, dshape, tshape, zone):
    """spec-side reading of the text: dict of fields (ints or SymInt)"""
    f = {}
    p = 0
    if dshape:
        f["year"] = num(text, 0, 4)
        if dshape == "ymd":
            f["month"], f["day"] = num(text, 5, 7), num(text, 8, 10)
            p = 10
        else:
            f["doy"] = num(text, 5, 8)
            p = 8
        if tshape:
            p += 1          # the 'T'
    if tshape:
        f["hour"], f["minute"] = num(text, p, p + 2), num(text, p + 3, p + 5)
        p += 5
        f["second"], f["us"] = 0, 0
        if tshape != "hm":
            f["second"] = num(text, p + 1, p + 3)
            p += 3
            if tshape.startswith("hmsf"):
                nd = int(tshape[4:])
                frac = num(text, p + 1, p + 1 + nd)
                f["us"] = frac * (10 ** (6 - nd))
                f["fracdigits"] = nd
                p += 1 + nd
    if zone in ("+h", "-hh", "+hhmm", "-hh:mm"):
        sign = 1 if zone[0] == "+" else -1
        p += 1
        if zone == "+h":
            hh, mm = num(text, p, p + 1), 0
        elif zone == "-hh":
            hh, mm = num(text, p, p + 2), 0
        elif zone == "+hhmm":
            hh, mm = num(text, p, p + 2), num(text, p + 2, p + 4)
        else:
            hh, mm = num(text, p, p + 2), num(text, p + 3, p + 5)
        f["zh"], f["zm"], f["zsign"] = hh, mm, sign
    return f


def leapadd(y):
    if isinstance(y, int):
        return 1 if leap(y) else 0
    return mkint(z3.If(leap(y), 1, 0))


def field_validity(f):
    conds = []
    if "year" in f:
        conds.append(le(1, f["year"]))
        if "month" in f:
            d = dim(f["year"], f["month"])
            conds += [le(1, f["month"]), le(f["month"], 12), le(1, f["day"]),
                      le(f["day"], d if isinstance(d, int) else mkint(d))]
        else:
            conds += [le(1, f["doy"]), le(f["doy"], 365 + leapadd(f["year"]))]
    if "hour" in f:
        conds += [le(f["hour"], 23), le(f["minute"], 59)]
    return zand(conds)


def mk(x):
    if isinstance(x, bool):
        return x
    from ..core import mkbool
    return mkbool(x)


class Decode(Harness):
    prop = "C14"
    alphabet = "ascii"
    functions = FUNCS
    stubs = STUBS

    @property
    def bounds(self):
        return ("every digit assignment of the shape date=%s time=%s zone=%s, dialect %s, via %s" % (
            self.d, self.t, self.z, self.dialect, self.via))

    def shape(self):
        s = ""
        if self.d:
            s += DATE_SHAPES[self.d]
        if self.d and self.t:
            s += "T"
        if self.t:
            s += TIME_SHAPES[self.t]
        return s + ZONES[self.z]

    def inputs(self, ctx):
        return {"text": SymStr([ctx.fresh_char("d%d" % i, ((48, 57),)) if ch == "d" else ch
                                for i, ch in enumerate(self.shape())])}

    def prop_fn(self, L, inp):
        text = inp["text"]
        dia = dialect(L, self.dialect)
        D = dia["decoder"]
        f = parse_shape(text, self.d, self.t, self.z)
        valid = field_validity(f)
        # what the dialect says about this shape
        d = self.dialect
        pvl_like = d in ("PVL", "ISIS")
        has_offset = self.z in ("+h", "-hh", "+hhmm", "-hh:mm")
        colon_offset = self.z == "-hh:mm"
        lowercase_z = self.z == "z"
        sec60 = eq(f["second"], 60) if "second" in f else False
        sec_ok = le(f["second"], 59) if "second" in f else True
        # run
        if self.via == "decoder":
            try:
                r = ("ok", D.decode_datetime(text))
            except ValueError:
                r = ("ValueError", None)
        else:
            try:
                m = L.pvl.loads("T = " + text + "\nEND\n", parser=dia["parser"])
                items = list(m.items())
                r = ("ok", items[0][1]) if len(items) == 1 and bool(items[0][0] == "T") else ("shape", items)
            except L.exceptions.LexerError:
                r = ("LexerError", None)
            except L.exceptions.ParseError:
                r = ("ParseError", None)
        # expectations
        accept = zand([valid, sec_ok])           # a real date/time with seconds below 60
        reject = False
        if has_offset:
            zvalid = zand([le(f["zh"], 12), le(f["zm"], 59)])
            if d not in ("ODL", "Omni") or colon_offset is True:
                # PVL, ISIS and PDS3 have no zone offsets; +HH:MM with a colon is not ODL's spelling either
                accept, reject = False, True if d in ("PVL", "ISIS", "PDS3") else False
            else:
                accept = zand([accept, zvalid])
            if not self.t:
                accept, reject = False, False          # a date with an offset is not a date-time form
        if lowercase_z:
            accept = False                              # not a form of the grammar: nothing claimed
        if d == "PDS3" and "us" in f:
            ms_ok = eq(f["us"] % 1000, 0)
            reject = zor([reject, zand([valid, sec_ok, znot(ms_ok)])])
            accept = zand([accept, ms_ok])
        leap_str = False
        if "second" in f and not has_offset and not lowercase_z:
            # a seconds value of 60: text in PVL/ISIS/default, rejected by ODL and PDS3
            leapvalid = zand([valid, sec60])
            if d in ("ODL", "PDS3"):
                reject = zor([reject, leapvalid])
            else:
                leap_str = leapvalid
        conds = []
        if r[0] == "ok":
            v = r[1]
            k = kind(v)
            exp_kind = "datetime" if (self.d and self.t) else ("date" if self.d else "time")
            if k == "str":
                # leap-second text is kept as written; anything else decoding to a str is not a temporal value
                conds.append(znot(accept))
                conds.append(zimp(leap_str, str_eq(v, text)))
                if self.via == "decoder":
                    # decode_datetime returns text only for a seconds value of 60 with every other field
                    # in its basic range (the calendar itself is not checked for such text)
                    basic = [sec60, le(f["hour"], 23), le(f["minute"], 59)]
                    if "month" in f:
                        basic += [le(1, f["year"]), le(1, f["month"]), le(f["month"], 12), le(1, f["day"]), le(f["day"], 31)]
                    if "doy" in f:
                        basic += [le(1, f["year"]), le(1, f["doy"]), le(f["doy"], 366)]
                    conds.append(zand(basic) if not has_offset and not lowercase_z else False)
                conds.append(znot(reject) if self.via == "decoder" else True)
                return Outcome("str", zand(conds), {"value": v})
            if k not in ("date", "time", "datetime"):
                return Outcome("other:" + k, znot(zor([accept, leap_str])), {"value": v})
            conds.append(znot(reject))
            conds.append(znot(leap_str))
            # whenever the written fields are a real date/time the result must carry exactly them
            same = [k == exp_kind]
            if k == exp_kind:
                if self.d:
                    if "doy" in f:
                        emo, edd = md_from_doy(f["year"], f["doy"])
                    else:
                        emo, edd = f["month"], f["day"]
                    same += [int_eq(v.year, f["year"]), int_eq(v.month, emo), int_eq(v.day, edd)]
                if self.t:
                    same += [int_eq(v.hour, f["hour"]), int_eq(v.minute, f["minute"]), int_eq(v.second, f["second"]),
                             int_eq(v.microsecond, f["us"])]
                    off = tz_offset_minutes(v)
                    if has_offset:
                        want = (f["zh"] * 60 + f["zm"]) * f["zsign"]
                        same.append(off is not None and int_eq(off, want))
                    elif self.z == "Z" or d in ("PVL", "ISIS", "PDS3", "Omni"):
                        same.append(off is not None and int_eq(off, 0))
                    else:
                        same.append(off is None)          # ODL: local time
            conds.append(zimp(zand([valid, sec_ok]), zand(same)))
            return Outcome("temporal", zand(conds), {"value": v})
        if r[0] == "ValueError":
            return Outcome("ValueError", zand([znot(accept), znot(leap_str)]), None)
        if r[0] in ("LexerError", "ParseError"):
            return Outcome(r[0], zand([znot(accept), znot(leap_str)]), None)
        return Outcome("shape", False, {"items": r[1]})


# ---------------------------------------------------------------------------------------------
def next_day(y, mo, d):
    """the calendar day after (y, mo, d): ints or SymInts"""
    if all(isinstance(x, int) for x in (y, mo, d)):
        n = _dt.date(y, mo, d) + _dt.timedelta(days=1) if (y, mo, d) != (9999, 12, 31) else None
        return (n.year, n.month, n.day) if n else (10000, 1, 1)
    yz, mz, dz = zi(y), zi(mo), zi(d)
    last = dz == dim(y, mo) if not isinstance(dim(y, mo), int) else dz == dim(y, mo)
    d2 = z3.If(last, z3.IntVal(1), dz + 1)
    m2 = z3.If(last, z3.If(mz == 12, z3.IntVal(1), mz + 1), mz)
    y2 = z3.If(z3.And(last, mz == 12), yz + 1, yz)
    return mkint(y2), mkint(m2), mkint(d2)


def same_date(a, b):
    return zand([int_eq(a[0], b[0]), int_eq(a[1], b[1]), int_eq(a[2], b[2])])


def instant_eq(back, val):
    """two aware values denote the same instant (for times: as Python compares aware times).
    Formulated through 'next calendar day' instead of day numbers, which keeps the solver's
    arithmetic free of divisions of two different symbolic years."""
    ob, ov = tz_offset_minutes(back), tz_offset_minutes(val)
    diff = (back.hour * 60 + back.minute) - (val.hour * 60 + val.minute) - (ob - ov)
    if kind(val) == "time":
        return int_eq(diff, 0)
    db, dv = (back.year, back.month, back.day), (val.year, val.month, val.day)
    return zor([zand([int_eq(diff, 0), same_date(db, dv)]),
                zand([int_eq(diff, -1440), same_date(db, next_day(*dv))]),
                zand([int_eq(diff, 1440), same_date(dv, next_day(*db))])])


class Encode(Harness):
    prop = "C14"
    alphabet = "ascii"
    functions = FUNCS
    stubs = STUBS
    must_reach = ("roundtrip", "refused")

    @property
    def bounds(self):
        return ("every valid %s value (years 1-9999, every microsecond) with zone %s, dialect %s%s" % (
            self.k, self.tz, self.dialect, " options=%s" % (self.opt,) if getattr(self, "opt", None) else ""))

    def inputs(self, ctx):
        S = lambda h, lo, hi: SymInt(ctx.fresh_int(h, lo, hi))
        v = {}
        if self.k in ("date", "datetime"):
            v["year"], v["month"], v["day"] = S("Y", 1, 9999), S("m", 1, 12), S("d", 1, 31)
            ctx.assume(I(v["day"]) <= dim(v["year"], v["month"]))
        if self.k in ("time", "datetime"):
            v["hour"], v["minute"], v["second"] = S("H", 0, 23), S("M", 0, 59), S("S", 0, 59)
            if self.us == "any":
                v["us"] = S("us", 0, 999999)
            elif self.us == "ms":
                ms = S("ms", 0, 999)
                v["us"] = ms * 1000
            else:
                v["us"] = 0
            if self.tz in ("offset", "zone"):
                v["off"] = S("off", -14 * 60, 14 * 60)
        return v

    def value(self, L, v, symbolic):
        tz = None
        if self.tz == "utc":
            tz = _dt.timezone.utc
        elif self.tz == "offset":
            off = v["off"]
            if isinstance(off, int):
                tz = _dt.timezone(_dt.timedelta(minutes=off))
            else:
                tz = cm.SymTz(cm.SymTimedelta(off))
        elif self.tz == "zone":
            # a zone whose offset depends on the date (zoneinfo and the like): utcoffset(None) is None
            off = v["off"]
            tz = cm.Zone(off) if isinstance(off, int) else cm.SymZone(cm.SymTimedelta(off))
        if not any(sym(x) for x in v.values()):
            if self.k == "date":
                return _dt.date(v["year"], v["month"], v["day"])
            if self.k == "time":
                return _dt.time(v["hour"], v["minute"], v["second"], v["us"], tzinfo=tz)
            return _dt.datetime(v["year"], v["month"], v["day"], v["hour"], v["minute"], v["second"], v["us"], tzinfo=tz)
        if self.k == "date":
            return cm.SymDate(v["year"], v["month"], v["day"])
        if self.k == "time":
            return cm.SymTime(v["hour"], v["minute"], v["second"], v["us"], tz)
        return cm.SymDatetime(v["year"], v["month"], v["day"], v["hour"], v["minute"], v["second"], v["us"], tz)

    def prop_fn(self, L, inp):
        v = dict(inp)
        dia = dialect(L, self.dialect)
        D = dia["decoder"]
        E = dia["encoder"](**dict(getattr(self, "opt", None) or ()))
        val = self.value(L, v, True)
        try:
            text = E.encode_value(val)
        except ValueError:
            return Outcome("refused", True, None)
        try:
            back = D.decode_simple_value(text)
        except ValueError:
            return Outcome("unreadable", False, {"text": text})
        k = kind(back)
        if k != self.k:
            return Outcome("retyped:" + k, False, {"text": text, "back": back})
        conds = []
        if self.k in ("date", "datetime"):
            pass
        if self.k == "date":
            conds += [int_eq(back.year, val.year), int_eq(back.month, val.month), int_eq(back.day, val.day)]
        else:
            # same precision: seconds and microseconds are untouched by any zone arithmetic
            conds += [int_eq(back.second, val.second), int_eq(back.microsecond, val.microsecond)]
            o0, o1 = tz_offset_minutes(val), tz_offset_minutes(back)
            if o0 is None:
                # naive values: same fields; read back naive, or as UTC where the dialect defines a default zone
                names = ("hour", "minute") + (("year", "month", "day") if self.k == "datetime" else ())
                conds += [int_eq(getattr(back, n), getattr(val, n)) for n in names]
                if o1 is not None:
                    conds.append(self.dialect in ("PVL", "ISIS", "PDS3") and int_eq(o1, 0))
            else:
                # aware values: the same instant
                conds.append(o1 is not None and instant_eq(back, val))
        return Outcome("roundtrip", zand(conds), {"text": text, "back": back})


def obligations(tier):
    obs = []
    quick = tier == "quick"
    tshapes = ["hm", "hms", "hmsf1", "hmsf3", "hmsf6"] if quick else list(TIME_SHAPES)
    for d in ("PVL", "ODL", "PDS3", "ISIS", "Omni"):
        for via in ("decoder", "loads"):
            for ds in ("ymd", "yj"):
                for z in ("", "Z"):
                    obs.append(Decode(dialect=d, via=via, d=ds, t=None, z=z))
            for ts in tshapes:
                zones = ["", "Z", "+h", "-hh", "+hhmm", "-hh:mm", "z"]
                if quick and ts not in ("hms", "hmsf3"):
                    zones = ["", "Z", "-hh"]
                for z in zones:
                    obs.append(Decode(dialect=d, via=via, d=None, t=ts, z=z))
                    if not quick or ts in ("hm", "hms", "hmsf3"):
                        for ds in (("ymd", "yj") if (not quick or z in ("", "Z")) else ("ymd",)):
                            obs.append(Decode(dialect=d, via=via, d=ds, t=ts, z=z))
    for d in ("PVL", "ODL", "PDS3", "ISIS"):
        obs.append(Encode(dialect=d, k="date", tz="naive", us="zero"))
        for k in ("time", "datetime"):
            for tz in ("naive", "utc", "offset", "zone"):
                for us in ("zero", "ms", "any"):
                    if quick and tz in ("offset", "zone") and us == "any":
                        continue      # every-microsecond x every-offset is a thorough-tier obligation (solver time)
                    obs.append(Encode(dialect=d, k=k, tz=tz, us=us))
        if d == "PDS3":
            obs.append(Encode(dialect=d, k="time", tz="utc", us="ms", opt=(("time_trailing_z", False),)))
            obs.append(Encode(dialect=d, k="datetime", tz="naive", us="ms", opt=(("time_trailing_z", False),)))
    return obs


def main(tier="quick", seed=0, jobs=16, only=None, time_scale=1.0):
    import json
    import os
    import subprocess
    import sys
    obs = obligations(tier)
    if only:
        obs = [o for o in obs if only in o.name]
    # the SMT lemmas that justify the integer model of round(us / 1000) (L1) and the format tables (L4) run
    # beside the exploration; their verdict is merged into the evidence, a failed lemma is exit 3
    from ..framework import VERIF, PY
    lem = subprocess.Popen([PY, "-W", "ignore", "-m", "symx.lemmas"], cwd=VERIF, stdout=subprocess.PIPE,
                           stderr=subprocess.DEVNULL, text=True)
    status = run_property("C14", obs, tier, seed, jobs=jobs, time_scale=time_scale)
    out, _ = lem.communicate(timeout=900)
    try:
        res = json.loads(out.strip().splitlines()[-1])
    except Exception:      # noqa
        res = {"ok": False, "error": out[-300:]}
    evp = os.path.join(VERIF, "evidence", "C14.json")
    ev = json.load(open(evp))
    ev["coverage"]["smt_lemmas"] = res
    json.dump(ev, open(evp, "w"), indent=1, sort_keys=True)
    if not res.get("ok"):
        print("HARNESS-ERROR obligation=lemmas an SMT lemma behind the engine's float model did not hold: %s" % json.dumps(res)[:400])
        if status == 0:
            status = 3
    return status
