"""C08 - missing values are tolerated by the default loader and located exactly.

Base labels of up to five statements (top level, inside a block, first/last in a
block, adjacent gaps, with and without delimiters / END).  Every assignment
carries a solver-chosen decision "its value is removed"; every inter-token
white-space character is a symbolic member of {blank, newline}, so the line
number of each '=' is a sum over those variables - pvl's own
``doc.count("\\n", ...)`` / ``rfind("=")`` arithmetic runs on the symbolic text
and is compared with the harness's own sum.

Default loader: every statement present and in order, each gap's value is an
empty-string placeholder carrying the 1-based line of its '=', module.errors is
exactly the sorted list of those lines.  Strict PVL/ODL/PDS3 parsers raise
LexerError/ParseError whenever at least one value is missing.
"""
from ..core import SymStr, SymInt, B, I, zand, zor, znot, mkint, Ctx
from .common import Harness, Outcome, dialect, run_property, int_eq, str_eq, veq

try:
    import z3
except Exception:     # pragma: no cover
    z3 = None

# statement: ("asg", name, value text) | ("begin", keyword, name) | ("end", keyword[, name]) | ("END",) | ("semi",)
TEMPLATES = {
    "top3": [("asg", "a", "1"), ("asg", "b", "2"), ("asg", "c", "3")],
    "top3end": [("asg", "a", "1"), ("asg", "b", "2"), ("asg", "c", "3"), ("END",)],
    "group": [("begin", "GROUP", "g"), ("asg", "a", "1"), ("asg", "b", "2"), ("end", "END_GROUP"), ("asg", "c", "3"),
              ("END",)],
    "object": [("asg", "x", "0"), ("begin", "OBJECT", "o"), ("asg", "a", "1"), ("end", "END_OBJECT", "o"), ("END",)],
    "semi": [("asg", "a", "1"), ("semi",), ("asg", "b", "2"), ("semi",), ("END",)],
    "values": [("asg", "a", '"q"'), ("asg", "b", "(1,2)"), ("asg", "c", "v"), ("asg", "d", "4")],
    "nested": [("begin", "OBJECT", "o"), ("begin", "GROUP", "g"), ("asg", "a", "1"), ("end", "END_GROUP"),
               ("asg", "b", "2"), ("end", "END_OBJECT"), ("END",)],
    "lastinblock": [("begin", "GROUP", "g"), ("asg", "a", "1"), ("end", "END_GROUP"), ("END",)],
    "beforeblock": [("asg", "a", "1"), ("begin", "BEGIN_OBJECT", "o"), ("asg", "b", "2"), ("end", "END_OBJECT"),
                    ("asg", "c", "3")],
    "noendblock": [("asg", "z", "0"), ("begin", "GROUP", "g"), ("asg", "a", "1"), ("asg", "b", "2"),
                   ("end", "END_GROUP", "g")],
    "semis": [("asg", "a", "1"), ("semi",), ("asg", "b", "2"), ("semi",), ("asg", "c", "3"), ("semi",)],
    "five": [("asg", "a", "1"), ("asg", "b", "2"), ("asg", "c", "3"), ("asg", "d", "4"), ("asg", "e", "0"), ("END",)],
    # the same parameter name several times (also the one that loses its value), at top level and in a block
    "repeat": [("asg", "a", "1"), ("asg", "b", "2"), ("asg", "a", "3"), ("asg", "c", "4"), ("asg", "a", "0"), ("END",)],
    "repeatgroup": [("asg", "a", "1"), ("begin", "GROUP", "g"), ("asg", "a", "2"), ("asg", "b", "3"), ("asg", "a", "4"),
                    ("asg", "b", "0"), ("end", "END_GROUP"), ("asg", "b", "1"), ("END",)],
    # comments that contain '=' signs and line ends, before, between and directly after the statements
    "cmtafter": [("asg", "a", "1"), ("cmt", "/* x = y */"), ("asg", "b", "2"), ("cmt", "/* =\n= */"), ("asg", "c", "3"),
                 ("cmt", "/* z = */"), ("END",)],
    "cmtbefore": [("cmt", "/* k = v\n */"), ("asg", "a", "1"), ("asg", "b", "2"), ("cmt", "/*=*/"), ("begin", "GROUP", "g"),
                  ("asg", "c", "3"), ("cmt", "/* = */"), ("end", "END_GROUP")],
    # a multi-line quoted string before the gaps (a line end inside a token)
    "multiline": [("asg", "a", '"p = q\nr"'), ("asg", "b", "2"), ("asg", "c", "3"), ("END",)],
    # ... that ends a line in a dash: the default loader's dash-continuation removal joins the lines (finding D50)
    "dash": [("asg", "a", '"x-\ny"'), ("asg", "b", "2"), ("asg", "c", "3"), ("END",)],
    # parameter names that spell the value keywords (after a gap the name has first been read as a value), keyword values
    "kwnames": [("asg", "a", "1"), ("asg", "NULL", "2"), ("asg", "b", "TRUE"), ("asg", "True", "3"), ("asg", "false", "NULL"),
                ("END",)],
}
EXPECT_VALUES = {"TRUE": True, "NULL": None, "1": 1, "2": 2, "3": 3, "0": 0, "4": 4, '"q"': "q", "(1,2)": [1, 2], "v": "v", '"p = q\nr"': "p = q r",
                 '"x-\ny"': "xy"}


class Gaps(Harness):
    prop = "C08"
    alphabet = "ascii"
    functions = ("pvl.parser.OmniParser.parse", "pvl.parser.OmniParser.parse_module_post_hook",
                 "pvl.parser.OmniParser.parse_value_post_hook", "pvl.parser.OmniParser.parse_assignment_statement",
                 "pvl.parser.OmniParser._empty_value", "pvl.exceptions.linecount", "pvl.parser.PVLParser.parse_module",
                 "pvl.parser.PVLParser.parse_aggregation_block", "pvl.parser.EmptyValueAtLine", "pvl.lexer.lexer")
    must_reach = ("loaded", "raised")

    @property
    def bounds(self):
        return ("template %s: every subset of its assignments with the value removed x %s; loader %s" % (
            self.template, ("every layout in which each of the %d inter-token gaps is a blank, TAB, CR or LF" % self.ngaps())
            if self.dialect == "Omni" else "one fixed layout", self.dialect))

    def known(self, L, inp):
        """D50: line numbers are computed on the text AFTER the default loader's dash-continuation removal"""
        if self.template == "dash" and self.dialect == "Omni":
            rm = list(inp["rm"])
            return (("D50", (not rm[0]) and (rm[1] or rm[2])),)
        return ()

    def tokens(self, rm):
        toks = []          # (text, statement index or None, is_equals)
        ai = 0
        for st in TEMPLATES[self.template]:
            if st[0] == "asg":
                toks += [(st[1], None, False), ("=", ai, True)]
                if not rm[ai]:
                    toks.append((st[2], None, False))
                ai += 1
            elif st[0] == "begin":
                toks += [(st[1], None, False), ("=", None, False), (st[2], None, False)]
            elif st[0] == "end":
                toks.append((st[1], None, False))
                if len(st) > 2:
                    toks += [("=", None, False), (st[2], None, False)]
            elif st[0] == "END":
                toks.append(("END", None, False))
            elif st[0] == "semi":
                toks.append((";", None, False))
            elif st[0] == "cmt":
                toks.append((st[1], None, False))
        return toks

    def nasg(self):
        return sum(1 for st in TEMPLATES[self.template] if st[0] == "asg")

    def ngaps(self):
        return len(self.tokens([False] * self.nasg())) - 1

    def inputs(self, ctx):
        n = self.nasg()
        rm = [ctx.decide(ctx.fresh_bool("rm%d" % i)) for i in range(n)]
        k = len(self.tokens(rm)) - 1
        if self.dialect != "Omni":
            # the strict parsers only have to raise: the layout is not the subject there, and a
            # symbolic blank/newline would fork inside PVLGrammar.char_allowed for every gap
            return {"rm": rm, "ws": "".join(" \n"[(i * 7 + len(self.template)) % 2] for i in range(k))}
        per = 2 if getattr(self, "layout", "one") == "two" else 1      # "two": CR-LF pairs become possible
        ws = SymStr([ctx.fresh_char("w%d" % i, ((9, 10), (13, 13), (32, 32))) for i in range(k * per)])
        return {"rm": rm, "ws": ws}

    def prop_fn(self, L, inp):
        rm = list(inp["rm"])
        ws = inp["ws"]
        wcs = list(ws) if isinstance(ws, str) else [SymStr((c,)) if not isinstance(c, str) else c for c in ws.cs]
        toks = self.tokens(rm)
        text = ""
        eq_line = {}                 # assignment index -> 1-based line of its '='
        nl_before = 0                # int or SymInt: newlines so far
        per = len(wcs) // max(1, len(toks) - 1) if len(toks) > 1 else 1
        for i, (t, ai, is_eq) in enumerate(toks):
            for w in (wcs[(i - 1) * per:i * per] if i else []):
                text = text + w
                isnl = (w == "\n")
                nl_before = nl_before + (int(isnl) if isinstance(isnl, bool) else mkint(z3.If(B(isnl), 1, 0)))
            if is_eq:
                eq_line[ai] = nl_before + 1
            text = text + t
            nl_before = nl_before + t.count("\n")          # a line end inside a comment or a quoted string
        # expected tree
        def build(sts, pos):
            out = []
            while pos[0] < len(sts):
                st = sts[pos[0]]
                pos[0] += 1
                if st[0] == "asg":
                    ai = pos[1]
                    pos[1] += 1
                    ev = EXPECT_VALUES[st[2]]
                    if self.dialect == "PVL" and st[2].startswith('"'):
                        ev = st[2][1:-1]           # the PVL decoder keeps quoted text as written (no folding)
                    out.append((st[1], ("EMPTY", eq_line[ai]) if rm[ai] else ev))
                elif st[0] == "begin":
                    out.append((st[2], ("BLOCK", st[1], build(sts, pos))))
                elif st[0] == "end":
                    return out
                elif st[0] == "END":
                    pos[0] = len(sts)
                    return out
            return out
        exp = build(TEMPLATES[self.template], [0, 0])
        exp_errors = [eq_line[i] for i in range(len(rm)) if rm[i]]
        anygap = any(rm)
        dia = self.dialect
        try:
            if dia == "Omni":
                m = L.pvl.loads(text)
            else:
                m = L.pvl.loads(text, parser=dialect(L, dia)["parser"])
        except (L.exceptions.LexerError, L.exceptions.ParseError) as e:
            # strict parsers must raise when a value is missing; nobody may raise on the complete label
            return Outcome("raised", dia != "Omni" and anygap, {"text": text, "exception": type(e).__name__})
        if dia != "Omni" and anygap:
            return Outcome("loaded", False, {"text": text, "module": snap(m)})
        conds = [same(L, m, exp)]
        if dia == "Omni":
            errs = list(m.errors)
            conds.append(len(errs) == len(exp_errors))
            if len(errs) == len(exp_errors):
                # errors is sorted; the expected lines are non-decreasing in statement order already
                conds += [int_eq(a, b) for a, b in zip(errs, exp_errors)]
        return Outcome("loaded", zand(conds), {"text": text, "module": snap(m),
                                               "errors": list(getattr(m, "errors", []))})


def snap(m):
    if hasattr(m, "items"):
        return [type(m).__name__] + [(k, snap(v)) for k, v in m.items()]
    return m


def same(L, m, exp):
    items = list(m.items())
    if len(items) != len(exp):
        return False
    conds = []
    for (k, v), (ek, ev) in zip(items, exp):
        if not (isinstance(k, str) and k == ek):
            return False
        if isinstance(ev, tuple) and ev[0] == "EMPTY":
            if type(v).__name__ != "EmptyValueAtLine" or not (v == ""):
                return False
            conds.append(int_eq(v.lineno, ev[1]))
        elif isinstance(ev, tuple) and ev[0] == "BLOCK":
            want = "PVLGroup" if "GROUP" in ev[1] else "PVLObject"
            if type(v).__name__ != want:
                return False
            conds.append(same(L, v, ev[2]))
        else:
            if type(v).__name__ == "EmptyValueAtLine":
                return False
            conds.append(veq(v, ev))
    return zand(conds)


def obligations(tier):
    obs = []
    for t in TEMPLATES:
        for d in ("Omni", "PVL", "ODL", "PDS3"):
            obs.append(Gaps(template=t, dialect=d))
    for t in ("top3end", "group", "multiline", "cmtafter") + (() if tier == "quick" else ("nested", "semis", "values", "cmtbefore")):
        obs.append(Gaps(template=t, dialect="Omni", layout="two"))
    return obs


def main(tier="quick", seed=0, jobs=16, only=None, time_scale=1.0):
    obs = obligations(tier)
    if only:
        obs = [o for o in obs if only in o.name]
    return run_property("C08", obs, tier, seed, jobs=jobs, time_scale=time_scale)
