"""C04 - white space and comments never change the meaning of a label.

Token lists covering every (token kind, token kind) adjacency the grammars
allow; between the tokens of a sliding window sits a SYMBOLIC separator: a run
of 0 (only where the grammar makes white space optional), 1 or 2 characters
each a symbolic member of the white-space set, or a comment /* c */ with a
symbolic inner character (with or without surrounding white space), or - for
the ISIS and default grammars - white space + '#' + a symbolic character +
newline.  Assertion: the load succeeds and equals the load of the same tokens
separated by single blanks.
"""
from ..core import SymStr, B, zand
from .common import Harness, Outcome, dialect, run_property, veq, str_eq
from .c03 import load, FUNCS

WS = (9, 10, 11, 12, 13, 32)
LABELS = {
    "values": ["a", "=", "1", ";", "b", "=", '"q r"', ";", "c", "=", "(", "1", ",", "x", ",", "'s'", ")", ";",
               "d", "=", "{", "1", ",", "2", "}", ";", "END"],
    "blocks": ["GROUP", "=", "g", "a", "=", "1", "<m>", "END_GROUP", "=", "g", "OBJECT", "=", "o", "b", "=", "2.5",
               "k", "=", "v", "END_OBJECT", "z", "=", "0", "END"],
    "units": ["a", "=", "(", "1", ",", "2", "<m>", ",", "3.5", "<km/s>", ")", "b", "=", "{", "1", "<m>", ",", "2", "<s>", "}",
              "c", "=", "7", "<K>", "END"],
    # quoted strings that span lines, each directly followed by a name, a bracket, a comma or END
    "multiline": ["a", "=", '"p\nq"', "b", "=", "'r\ns'", "c", "=", "(", '"t\nu"', ",", "1", ")", "d", "=", '"v w"', "END"],
    "mixed": ["a", "=", "16#FF#", "b", "=", "-1", "c", "=", "2001-01-01", "d", "=", "12:00", "e", "=", "(", "1",
              "<m>", ",", "2", ")", "f", "=", "+1.5e3", "g", "=", "NULL"],
}
LABELS_BY_DIALECT = {"PVL": ("values", "blocks", "mixed", "units", "multiline"), "ODL": ("values", "blocks", "units", "multiline"),
                     "PDS3": ("values", "blocks", "units", "multiline"), "ISIS": ("values", "blocks", "mixed", "units", "multiline"),
                     "Omni": ("values", "blocks", "mixed", "units", "multiline")}
PUNCT = set("=,(){};")


def optional_gap(a, b):
    # white space is optional next to punctuation, before units, and after a quoted string (which delimits itself)
    return a in PUNCT or b in PUNCT or b.startswith("<") or (len(a) > 1 and a[0] in "\"'" and a[-1] == a[0])


def snap(m):
    if hasattr(m, "items"):
        return [type(m).__name__] + [(k, snap(v)) for k, v in m.items()]
    if isinstance(m, list):
        return [snap(x) for x in m]
    if isinstance(m, (set, frozenset)):
        return sorted(repr(x) for x in m)
    return m


class Layout(Harness):
    prop = "C04"
    functions = FUNCS + ("pvl.lexer.lex_multichar_comments", "pvl.lexer.lex_singlechar_comments", "pvl.token.Token.is_WSC",
                         "pvl.parser.PVLParser.parse_WSC_until", "…parse_statement_delimiter", "…parse_around_equals")
    must_reach = ("same",)

    @property
    def alphabet(self):
        return {"PVL": "latin", "ISIS": "latin", "ODL": "ascii", "PDS3": "ascii", "Omni": "omni"}[self.dialect]

    @property
    def bounds(self):
        return ("loader %s, label %s (%d tokens), gaps %d..%d replaced by a symbolic separator of kind %s, all other "
                "gaps one blank" % (self.dialect, self.label, len(LABELS[self.label]), self.at, self.at + self.win - 1,
                                    self.kind))

    def gaps(self):
        toks = LABELS[self.label]
        return [g for g in range(self.at, min(self.at + self.win, len(toks) - 1))]

    def inputs(self, ctx):
        toks = LABELS[self.label]
        seps = {}
        wsr = tuple((c, c) for c in WS)
        for g in self.gaps():
            k = self.kind
            if k == "ws0" and not optional_gap(toks[g], toks[g + 1]):
                k = "ws1"
            if k == "ws0":
                seps[str(g)] = ""
            elif k in ("ws1", "ws2"):
                seps[str(g)] = SymStr([ctx.fresh_char("w%d_%d" % (g, i), wsr) for i in range(int(k[2]))])
            elif k in ("cmt", "cmtws", "cmt2"):
                # the inner characters are free: only the two-character terminator '*/' may not occur inside
                inner = [ctx.fresh_char("c%d_%d" % (g, i)) for i in range(2 if k == "cmt2" else 1)]
                if k == "cmt2":
                    import z3
                    ctx.assume(z3.Not(z3.And(inner[0].z == 42, inner[1].z == 47)))
                if self.dialect in ("PVL", "ISIS"):
                    from .c15 import spec_allowed
                    for c in inner:
                        a = spec_allowed("PVL", c.z)
                        if not isinstance(a, bool):
                            ctx.assume(a)
                body = SymStr(["/", "*"] + inner + ["*", "/"])
                if k in ("cmtws", "cmt2") or not optional_gap(toks[g], toks[g + 1]):
                    w = ctx.fresh_char("w%d" % g, wsr)
                    body = SymStr([w]) + body + SymStr([ctx.fresh_char("v%d" % g, wsr)])
                seps[str(g)] = body
            elif k in ("hash", "hash2"):
                inner = [ctx.fresh_char("h%d_%d" % (g, i)) for i in range(2 if k == "hash2" else 1)]
                for c in inner:
                    ctx.assume(c.z != 10)
                    if self.dialect in ("PVL", "ISIS"):
                        from .c15 import spec_allowed
                        a = spec_allowed("PVL", c.z)
                        if not isinstance(a, bool):
                            ctx.assume(a)
                seps[str(g)] = SymStr([ctx.fresh_char("w%d" % g, wsr), "#"] + inner + ["\n"])
        return {"seps": seps}

    def known(self, L, inp):
        """D37: the default loader removes 'dash + line end' from the whole text before lexing, also inside a
        '#' comment, so a '#' comment whose last character is a dash swallows the following line"""
        if self.dialect != "Omni" or self.kind not in ("hash", "hash2"):
            return ()
        from ..core import zor, ch_eq
        conds = []
        from ..core import zand, ch_in, chars_to_ranges
        le = chars_to_ranges("\n\r\f")
        for g, sep in inp["seps"].items():
            es = list(sep) if isinstance(sep, str) else list(SymStr.of(sep).cs)
            # a dash followed by a line end (LF, CR or FF) anywhere in the comment, its closing line end included
            for x, y in zip(es, es[1:]):
                conds.append(zand([ch_eq(x, "-"), ch_in(y, le)]))
        return (("D37", zor(conds)),)

    def prop_fn(self, L, inp):
        toks = LABELS[self.label]
        seps = inp["seps"]
        text, base = "", ""
        for i, t in enumerate(toks):
            if i:
                text = text + (seps[str(i - 1)] if str(i - 1) in seps else " ")
                base = base + " "
            text = text + t
            base = base + t
        expect = load(L, self.dialect, base)
        try:
            m = load(L, self.dialect, text)
        except L.exceptions.LexerError:
            return Outcome("LexerError", False, {"text": text})
        except L.exceptions.ParseError:
            return Outcome("ParseError", False, {"text": text})
        return Outcome("same", same(m, expect), {"text": text, "module": snap(m)})


def same(a, b):
    if type(a).__name__ != type(b).__name__:
        return False
    ia, ib = list(a.items()), list(b.items())
    if len(ia) != len(ib):
        return False
    conds = []
    for (k1, v1), (k2, v2) in zip(ia, ib):
        conds.append(str_eq(k1, k2))
        if hasattr(v1, "items") or hasattr(v2, "items"):
            conds.append(hasattr(v1, "items") and hasattr(v2, "items") and same(v1, v2))
        else:
            conds.append(veq(v1, v2))
    return zand(conds)


def obligations(tier):
    obs = []
    quick = tier == "quick"
    for d, labels in LABELS_BY_DIALECT.items():
        kinds = ["ws0", "ws1", "ws2", "cmt", "cmtws", "cmt2"] + (["hash", "hash2"] if d in ("ISIS", "Omni") else [])
        for lab in labels:
            n = len(LABELS[lab])
            for at in range(0, n - 1):
                for k in kinds:
                    # the window: two adjacent gaps for the cheap kinds (three in the thorough tier), one for the rest
                    win = {"ws0": 3, "ws1": 2, "cmt": 2}.get(k, 1) + (0 if quick or k in ("cmt2", "hash2") else 1)
                    if win > 1 and at % 2 and quick:
                        continue
                    if quick and ((k == "cmt2" and at % 5) or (k in ("cmtws", "hash2") and at % 2)):
                        continue          # the two-character comment bodies are the expensive kinds
                    obs.append(Layout(dialect=d, label=lab, at=at, win=win, kind=k))
    return obs


def main(tier="quick", seed=0, jobs=16, only=None, time_scale=1.0):
    obs = obligations(tier)
    if only:
        obs = [o for o in obs if only in o.name]
    return run_property("C04", obs, tier, seed, jobs=jobs, time_scale=time_scale)
