"""C01 - dump then strict load in the same dialect returns the original module
(C02 reuses this harness with the default permissive loader as the reader).

A module of a fixed *shape* with one symbolic leaf (a string of every length up
to the bound over the dialect's alphabet, an integer, a finite float in repr
form, ...) goes through the real encoder; the resulting symbolic text goes
through the real lexer, parser and decoder of the same dialect; the result must
equal the spec-side normalisation of the original (rt.tree), or the encoder
must have refused with ValueError/TypeError.
"""
from ..core import SymInt, B, zand
from .common import Harness, Outcome, dialect, run_property
from . import rt

FUNCS = ("pvl.encoder.*Encoder.encode", "…encode_module", "…encode_aggregation_block", "…encode_assignment",
         "…encode_value", "…encode_simple_value", "…encode_string", "…needs_quotes", "…encode_sequence",
         "…encode_set", "…encode_quantity", "…encode_units", "…format (stdlib textwrap, instrumented)",
         "pvl.lexer.lexer", "pvl.parser.*Parser.parse and productions", "pvl.decoder.*Decoder.decode_simple_value")
STUBS = ("int/float/str(int)", "repr(float) language (15 significant digits, positional)", "re -> formulas",
         "strptime", "str methods")


class RoundTrip(Harness):
    prop = "C01"
    reader = "strict"
    functions = FUNCS
    stubs = STUBS
    must_reach = ("roundtrip", "refused")
    timeout = 170

    @property
    def alphabet(self):
        return rt.ALPHA[self.dialect]

    @property
    def bounds(self):
        return ("dialect %s, shape %s, one %s leaf of size %d (string: every string of that length over '%s'; int: "
                "|i| <= 10^n; float: positional repr text with n digits; t:<kind>:<zone>:<precision>: every valid "
                "date/time/datetime with that zone and precision), encoder configuration %s, reader %s" % (
                    self.dialect, self.shape, self.leaf, self.n, rt.ALPHA[self.dialect], self.cfg, self.reader))

    def inputs(self, ctx):
        inp = {"x": rt.leaf_inputs(ctx, self.leaf, self.n, self.dialect)}
        return rt.width_input(ctx, self.dialect, self.cfg, inp)

    def prop_fn(self, L, inp):
        x = rt.leaf_value(L, inp["x"])
        m = rt.shape_module(L, self.shape, x)
        d, E, cfg = rt.make_encoder(L, self.dialect, self.cfg, inp)
        # expected result first: the PDS3 encoder may change the class of a group in place
        exp = rt.tree(L, m, self.dialect, convert=cfg.get("convert_group_to_object", True), reader=self.reader)
        try:
            text = E.encode(m)
        except (ValueError, TypeError):
            return Outcome("refused", True, None)
        try:
            if self.reader == "strict":
                back = d["parser"].parse(text)
            else:
                back = L.pvl.loads(text)
        except L.exceptions.LexerError:
            return Outcome("unreadable:LexerError", False, {"text": text})
        except L.exceptions.ParseError:
            return Outcome("unreadable:ParseError", False, {"text": text})
        ok = rt.match(back, exp)
        if self.reader == "omni":
            ok = zand([ok, list(back.errors) == []])
        return Outcome("roundtrip", ok, {"text": text, "back": rt.snapshot(back)})


def plan(tier, big=None):
    """(shape, leaf, n, cfg) tuples"""
    quick = tier == "quick"
    if big is None:
        big = not quick
    out = []
    smax = 2 if quick else 3
    for shape in rt.SHAPES:
        if shape in ("quant", "quantbad", "wrapunits"):
            continue
        for n in range(0, smax + 1):
            out.append((shape, "str", n, "default"))
    out.append(("single", "str", smax + 1, "default"))
    # a quantity whose value is a string (PVL/ISIS write it, ODL/PDS3 refuse), also where the line breaks before the units
    for n in range(0, smax + 1):
        out.append(("quant", "str", n, "default"))
    out.append(("quant", "str", 1, "symtiny"))
    out.append(("quant", "str", 2, "symtiny"))
    for shape in ("single", "seq", "set", "quant", "quantbad", "group"):
        out.append((shape, "int", 3 if quick else 6, "default"))
        out.append((shape, "float", 4 if quick else 6, "default"))
    for shape in ("single", "seq", "group"):
        out.append((shape, "t:date:naive:zero", 0, "default"))
        for tz in ("naive", "utc", "offset"):
            out.append((shape, "t:time:%s:ms" % tz, 0, "default"))
            if shape == "single" or not quick:
                out.append((shape, "t:datetime:%s:ms" % tz, 0, "default"))
        out.append((shape, "t:time:utc:any", 0, "default"))
    out.append(("single", "t:datetime:utc:ms", 0, "noz"))
    # strings shaped like numbers, dates, times, zoned times: must come back as the same strings
    for sh in ("dd:dd", "dd:dd-dd", "dd:dd:dd+dd:dd", "dddd-dd-dd", "dddd-dddTdd:dd+d", "d#d#", "dd#-d#", "d.dEd", "-d", "d_d"):
        for shape in ("single", "seq"):
            out.append((shape, "shape:" + sh, 0, "default"))
    # floats whose repr uses an exponent, both signs, inside containers too
    for sh in ("sd.dEs1d", "sd.dE-d", "sdE2d") + (() if quick else ("sd.ddEs0d", "sd.dEs2d")):
        for shape in ("single", "seq", "quant"):
            out.append((shape, "fexp:" + sh, 0, "default"))
    # more blocks / deeper nesting than any small fixed limit (expensive: the quick tier runs them for the default
    # loader only, C02)
    if big:
        out.append(("manyblocks", "str", 1, "noaggend"))
        out.append(("deepblocks", "str", 1, "default"))
        if not quick:
            out.append(("manyblocks", "str", 1, "default"))
            out.append(("deepblocks", "str", 1, "noaggend"))
    # strings that spell a keyword of SOME dialect (the ISIS grammar has no BEGIN_ forms, the default loader has)
    for w in ("BEGIN_GROUP", "BEGIN_OBJECT", "END_GROUP", "End_Object", "OBJECT", "GROUP", "END", "NULL", "TRUE", "FALSE"):
        out.append(("single", "kw:" + w, 0, "default"))
        if not quick or w in ("BEGIN_GROUP", "END", "NULL"):
            out.append(("seq", "kw:" + w, 0, "default"))
    out.append(("wrapunits", "int", 2, "default"))
    out.append(("wrapunits", "int", 2, "narrow"))
    for cfg in list(rt.CONFIGS) + list(rt.PVL_ONLY) + list(rt.PDS_ONLY):
        if cfg == "default":
            continue
        for shape in ("group", "wrapseq", "wrapquote", "wrapstr", "grouponly", "nested"):
            out.append((shape, "str", 1, cfg))
            if not quick:
                out.append((shape, "str", 2, cfg))
    return out


def obligations(tier, cls=RoundTrip):
    obs = []
    for dia in ("PVL", "ODL", "PDS3", "ISIS"):
        for shape, leaf, n, cfg in plan(tier, big=True if cls.reader == "omni" else None):
            if rt.config(dia, cfg) is None:
                continue
            bits = 3 if (leaf == "str" and n >= 3) else 0
            obs.append(cls(dialect=dia, shape=shape, leaf=leaf, n=n, cfg=cfg, shard_bits=bits))
    return obs


def main(tier="quick", seed=0, jobs=16, only=None, time_scale=1.0):
    obs = obligations(tier)
    if only:
        obs = [o for o in obs if only in o.name]
    return run_property("C01", obs, tier, seed, jobs=jobs, time_scale=time_scale)
