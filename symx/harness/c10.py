"""C10 - multi-dict list view and mapping view agree after any operation history.

Inductive step instead of histories: the pre-state is the container built from
an ARBITRARY list of pairs (every equality pattern of keys up to the bound - keys
are drawn from a pool by symbolic integers in restricted-growth form, which
covers all patterns up to renaming - with symbolic integer values), then ONE
operation with symbolic arguments, then the complete observer suite against a
plain list-of-pairs model, including the representation invariant (dict storage
= grouping of the item list) so that the step composes to histories of any
length.  The constructor (append only) is the base case.
"""
from ..core import SymInt, SymStr, B, zand, zor, znot, ziff, Ctx, Unsupported
from .common import Harness, Outcome, run_property, veq

POOL = ("a", "b", "c", "d", "e", "f")
FUNCS = ("pvl.collections.OrderedMultiDict.__init__", "…__setitem__", "…__getitem__", "…__delitem__", "…__iter__",
         "…__len__", "…__eq__", "…append", "…extend", "…insert", "…insert_before", "…insert_after", "…key_index",
         "…pop", "…popall", "…popitem", "…setdefault", "…update", "…discard", "…clear", "…getall", "…get", "…copy",
         "pvl.collections.KeysView/ValuesView/ItemsView", "pvl.collections._insert_arg_helper")

CLASSES = ("OrderedMultiDict", "PVLModule", "PVLGroup", "PVLObject")
OPS = ("append", "extend_pairs", "extend_mapping", "extend_kwargs", "extend_multidict", "insert3", "insert_pair", "insert_pairs",
       "insert_before", "insert_after", "setitem", "delitem", "pop", "pop_key", "pop_key_default", "popall",
       "popitem", "setdefault", "update_pairs", "update_mapping", "discard", "clear", "copy_method")


def pick(ctx, hint, lo, hi):
    """an int in [lo, hi] chosen by the solver (forks over its values)"""
    if ctx is None:
        raise RuntimeError
    return int(SymInt(ctx.fresh_int(hint, lo, hi)))


class Step(Harness):
    prop = "C10"
    alphabet = "ascii"
    functions = FUNCS
    must_reach = ("step",)
    timeout = 170

    @property
    def bounds(self):
        return ("class %s, every pre-state of exactly %d pairs (all key equality patterns, symbolic int values), "
                "operation %s with every argument choice (keys: every existing key or a new one; index in "
                "[-n-2, n+2]; instance in [-n-1, n+1]; values symbolic)" % (self.cls, self.n, self.op))

    def inputs(self, ctx):
        n = self.n
        keys = []
        mx = -1
        for i in range(n):
            k = pick(ctx, "k%d" % i, 0, min(mx + 1, len(POOL) - 1))
            mx = max(mx, k)
            keys.append(k)
        vals = [SymInt(ctx.fresh_int("v%d" % i, -3, 3)) for i in range(n)]
        pre = [(POOL[k], v) for k, v in zip(keys, vals)]
        nk = mx + 1                                       # existing keys are POOL[:nk]; POOL[nk] is a new one
        def key(h):
            return POOL[pick(ctx, h, 0, min(nk, len(POOL) - 1))]
        def val(h):
            return SymInt(ctx.fresh_int(h, -3, 3))
        def idx(h):
            return pick(ctx, h, -n - 2, n + 2)
        op = self.op
        a = {}
        if op in ("append", "insert3", "insert_pair", "setitem", "setdefault"):
            a = {"key": key("ak"), "value": val("av")}
        if op in ("insert3", "insert_pair", "insert_pairs"):
            a["index"] = idx("ai")
        if op in ("extend_pairs", "extend_mapping", "extend_kwargs", "insert_pairs", "update_pairs", "update_mapping",
                  "extend_multidict", "update_multidict"):
            m = pick(ctx, "am", 0, 3 if op.endswith("multidict") else 2)
            a["pairs"] = [(key("ak%d" % j), val("av%d" % j)) for j in range(m)]
        if op in ("insert_before", "insert_after"):
            a = {"key": key("ak"), "instance": pick(ctx, "ainst", -n - 1, n + 1),
                 "item": (key("ak2"), val("av2"))}
        if op in ("delitem", "pop_key", "popall", "discard"):
            a = {"key": key("ak")}
        if op == "pop_key_default":
            a = {"key": key("ak"), "default": val("ad")}
        return {"pre": pre, "args": a}

    # ---- the specification: what each documented operation does to the list of pairs
    def model_op(self, pre, a):
        """returns (new list, result descriptor) where the result is ('ret', value) or ('exc', name)"""
        op = self.op
        m = list(pre)
        keys = [k for k, _ in m]
        none = ("ret", None)
        if op == "append":
            return m + [(a["key"], a["value"])], none
        if op == "extend_multidict":
            return m + list(a["pairs"]), none            # another multi-dict: every pair, repeated keys included
        if op == "update_multidict":
            # update() assigns pair by pair (documented as dict-like): each assignment replaces the first
            # occurrence and drops later ones
            for k, v in a["pairs"]:
                sub = Step(cls=self.cls, n=0, op="setitem")
                m, _ = sub.model_op(m, {"key": k, "value": v})
            return m, none
        if op in ("extend_pairs", "extend_mapping", "extend_kwargs"):
            if op != "extend_pairs":
                # a mapping / keyword arguments cannot repeat a key: the last value wins, first position kept
                d = {}
                for k, v in a["pairs"]:
                    d[k] = v
                return m + list(d.items()), none
            return m + list(a["pairs"]), none
        if op in ("insert3", "insert_pair"):
            m.insert(a["index"], (a["key"], a["value"]))
            return m, none
        if op == "insert_pairs":
            i = a["index"]
            n = len(m)
            i = max(0, n + i) if i < 0 else min(i, n)
            m[i:i] = list(a["pairs"])
            return m, none
        if op in ("insert_before", "insert_after"):
            if a["key"] not in keys:
                return m, ("exc", "KeyError")
            idxs = [i for i, k in enumerate(keys) if k == a["key"]]
            inst = a["instance"]
            if not (-len(idxs) <= inst < len(idxs)):
                return m, ("exc", "IndexError")
            i = idxs[inst] + (1 if op == "insert_after" else 0)
            m.insert(i, a["item"])
            return m, none
        if op == "setitem":
            if a["key"] not in keys:
                return m + [(a["key"], a["value"])], none
            first = keys.index(a["key"])
            out = []
            for i, (k, v) in enumerate(m):
                if i == first:
                    out.append((k, a["value"]))
                elif k != a["key"]:
                    out.append((k, v))
            return out, none
        if op == "delitem":
            if a["key"] not in keys:
                return m, ("exc", "KeyError")
            return [(k, v) for k, v in m if k != a["key"]], none
        if op in ("pop", "popitem"):
            if not m:
                return m, ("exc", "KeyError")
            return m[:-1], ("ret", m[-1])
        if op in ("pop_key", "popall", "pop_key_default"):
            if a["key"] not in keys:
                if op == "pop_key_default":
                    return m, ("ret", a["default"])
                return m, ("exc", "KeyError")
            first = m[keys.index(a["key"])][1]
            return [(k, v) for k, v in m if k != a["key"]], ("ret", first)
        if op == "setdefault":
            if a["key"] in keys:
                return m, ("ret", m[keys.index(a["key"])][1])
            return m + [(a["key"], a["value"])], ("ret", a["value"])
        if op in ("update_pairs", "update_mapping"):
            pairs = a["pairs"]
            if op == "update_mapping":
                d = {}
                for k, v in pairs:
                    d[k] = v
                pairs = list(d.items())
            for k, v in pairs:
                sub = Step(cls=self.cls, n=0, op="setitem")
                m, _ = sub.model_op(m, {"key": k, "value": v})
            return m, none
        if op == "discard":
            return [(k, v) for k, v in m if k != a["key"]], none
        if op == "clear":
            return [], none
        if op == "copy_method":
            return m, ("ret", "copy")
        raise KeyError(op)

    def apply(self, L, c, a):
        op = self.op
        if op == "append":
            return c.append(a["key"], a["value"])
        if op == "extend_multidict":
            return c.extend(L.collections.PVLGroup(list(a["pairs"])))
        if op == "update_multidict":
            return c.update(L.collections.OrderedMultiDict(list(a["pairs"])))
        if op == "extend_pairs":
            return c.extend(list(a["pairs"]))
        if op == "extend_mapping":
            return c.extend(dict(a["pairs"]))
        if op == "extend_kwargs":
            return c.extend(**dict(a["pairs"]))
        if op == "insert3":
            return c.insert(a["index"], a["key"], a["value"])
        if op == "insert_pair":
            return c.insert(a["index"], (a["key"], a["value"]))
        if op == "insert_pairs":
            return c.insert(a["index"], list(a["pairs"]))
        if op == "insert_before":
            return c.insert_before(a["key"], a["item"], a["instance"])
        if op == "insert_after":
            return c.insert_after(a["key"], a["item"], a["instance"])
        if op == "setitem":
            c[a["key"]] = a["value"]
            return None
        if op == "delitem":
            del c[a["key"]]
            return None
        if op == "pop":
            return c.pop()
        if op == "popitem":
            return c.popitem()
        if op == "pop_key":
            return c.pop(a["key"])
        if op == "pop_key_default":
            return c.pop(a["key"], a["default"])
        if op == "popall":
            return c.popall(a["key"])
        if op == "setdefault":
            return c.setdefault(a["key"], a["value"])
        if op == "update_pairs":
            return c.update(list(a["pairs"]))
        if op == "update_mapping":
            return c.update(dict(a["pairs"]))
        if op == "discard":
            return c.discard(a["key"])
        if op == "clear":
            return c.clear()
        if op == "copy_method":
            return c.copy()
        raise KeyError(op)

    def prop_fn(self, L, inp):
        pre = [tuple(p) for p in inp["pre"]]
        a = dict(inp["args"])
        if "pairs" in a:
            a["pairs"] = [tuple(p) for p in a["pairs"]]
        if "item" in a:
            a["item"] = tuple(a["item"])
        cls = getattr(L.collections, self.cls)
        c = cls(list(pre))
        base = observe(L, cls, c, list(pre), self.n)
        if base is False:
            return Outcome("base", False, {"pre": pre})
        exp_list, exp_res = self.model_op(pre, a)
        try:
            r = ("ret", self.apply(L, c, a))
        except (KeyError, IndexError) as e:
            r = ("exc", type(e).__name__)
        conds = [base]
        if exp_res[0] == "exc" or r[0] == "exc":
            conds.append(r == exp_res if (r[0] == "exc" and exp_res[0] == "exc") else False)
        elif self.op == "copy_method":
            conds.append(type(r[1]) is cls)
            conds.append(observe(L, cls, r[1], exp_list, self.n))
            conds.append(r[1] is not c)
        else:
            conds.append(veq_pair(r[1], exp_res[1]))
        conds.append(observe(L, cls, c, exp_list, self.n))
        return Outcome("step", zand(conds), {"result": r[1] if r[0] == "exc" else describe(r[1]),
                                             "after": [(k, v) for k, v in c]})


def describe(v):
    if hasattr(v, "getall"):
        return [type(v).__name__] + [(k, x) for k, x in v.items()]
    return v


def veq_pair(a, b):
    if isinstance(a, tuple) and isinstance(b, tuple):
        if len(a) != len(b):
            return False
        return zand([veq_pair(x, y) for x, y in zip(a, b)])
    if a is None or b is None:
        return a is None and b is None
    if isinstance(a, str) or isinstance(b, str):
        return isinstance(a, str) and isinstance(b, str) and a == b
    if isinstance(a, list) or isinstance(b, list):
        return isinstance(a, list) and isinstance(b, list) and len(a) == len(b) and zand(
            [veq_pair(x, y) for x, y in zip(a, b)])
    r = a == b
    return B(r)


def observe(L, cls, c, model, n):
    """every public accessor of c against the plain list *model* -> bool or z3 Bool"""
    conds = []
    keys = [k for k, _ in model]
    # sequence view
    conds.append(len(c) == len(model))
    items = list(c)
    if len(items) != len(model):
        return False
    conds.append(veq_pair(items, list(model)))
    for i in range(-len(model) - 1, len(model) + 2):
        try:
            got = ("ret", c[i])
        except IndexError:
            got = ("exc", None)
        try:
            exp = ("ret", model[i])
        except IndexError:
            exp = ("exc", None)
        conds.append(got[0] == exp[0] and (got[0] == "exc" or veq_pair(got[1], exp[1])))
    for sl in (slice(None), slice(1, None), slice(None, -1), slice(None, None, -1), slice(1, 3), slice(-2, None)):
        conds.append(veq_pair(list(c[sl]), list(model[sl])))
    # views
    kv, vv, iv = c.keys(), c.values(), c.items()
    conds.append(len(kv) == len(model) and len(vv) == len(model) and len(iv) == len(model))
    conds.append(list(kv) == keys)
    conds.append(veq_pair(list(vv), [v for _, v in model]))
    conds.append(veq_pair(list(iv), list(model)))
    for i in range(len(model)):
        conds.append(kv[i] == keys[i])
        conds.append(veq_pair(vv[i], model[i][1]))
        conds.append(veq_pair(iv[i], model[i]))
    # mapping view, for every key of the pool that occurs plus one that does not
    for k in sorted(set(keys)) + [POOL[-1] + "x"]:
        vals = [v for kk, v in model if kk == k]
        present = bool(vals)
        conds.append((k in c) == present)
        conds.append((k in kv) == present)
        if present:
            conds.append(veq_pair(c[k], vals[0]))
            conds.append(veq_pair(c.get(k), vals[0]))
            conds.append(veq_pair(c.getall(k), vals))
            conds.append(kv.index(k) == keys.index(k))
            idxs = [i for i, kk in enumerate(keys) if kk == k]
            for inst in range(-len(idxs) - 1, len(idxs) + 1):
                try:
                    got = c.key_index(k, inst)
                except IndexError:
                    got = "IndexError"
                exp = idxs[inst] if -len(idxs) <= inst < len(idxs) else "IndexError"
                conds.append(got == exp)
            # representation invariant: the dict storage is the grouping of the list
            conds.append(veq_pair(list(dict.__getitem__(c, k)), vals))
        else:
            try:
                c[k]
                conds.append(False)
            except KeyError:
                pass
            conds.append(c.get(k) is None)
            conds.append(c.get(k, 7) == 7)
            try:
                c.getall(k)
                conds.append(False)
            except KeyError:
                pass
            try:
                c.key_index(k)
                conds.append(False)
            except KeyError:
                pass
    conds.append(sorted(dict.keys(c)) == sorted(set(keys)))
    conds.append(dict.__len__(c) == len(set(keys)))
    # equality: same class and same list <=> equal
    same = cls(list(model))
    conds.append(B(c == same))
    conds.append(znot(B(c != same)))
    if model:
        other = cls(list(model[:-1]))
        conds.append(znot(B(c == other)))
        other2 = cls(list(model[:-1]) + [(model[-1][0] + "z", model[-1][1])])
        conds.append(znot(B(c == other2)))
    else:
        conds.append(znot(B(c == cls([("a", 1)]))))
    for oc in CLASSES:
        if oc != cls.__name__ and not issubclass(getattr(L.collections, oc), cls):
            conds.append(znot(B(c == getattr(L.collections, oc)(list(model)))))
    return zand(conds)


def obligations(tier):
    obs = []
    nmax = {"quick": 3, "thorough": 4}[tier]
    for cls in CLASSES:
        for op in OPS:
            for n in range(0, nmax + 1):
                obs.append(Step(cls=cls, op=op, n=n))
    return obs


def main(tier="quick", seed=0, jobs=16, only=None, time_scale=1.0):
    obs = obligations(tier)
    if only:
        obs = [o for o in obs if only in o.name]
    return run_property("C10", obs, tier, seed, jobs=jobs, time_scale=time_scale)
