"""C11 - copies of a container are equal, independent and leave the original intact.

Pre-state as in C10 (every key equality pattern up to the bound) with one value
optionally replaced by a nested group/object of up to two pairs.  For each copy
mechanism: the copy matches the model at both levels with the same classes, the
original still matches it, the two do not share the top level (and, for deep
copies and pickles, the nested level): one symbolic mutation on either side
leaves the other side matching the model.

Values are symbolic integers for .copy() and copy.copy; copy.deepcopy and
pickle cross the C boundary (they would have to serialise solver terms), so
there the values are concrete distinct integers and only shape, keys and the
follow-up operation are symbolic - stated in the bounds.
"""
import copy
import pickle

from ..core import SymInt, B, zand, znot
from .common import Harness, Outcome, run_property
from .c10 import POOL, pick, veq_pair, observe, CLASSES

MECH = ("copy_method", "copy.copy", "copy.deepcopy", "pickle")
MUTS = ("append", "setitem", "delitem", "pop", "insert", "clear", "setdefault", "update", "nested_append",
        "nested_setitem", "nested_pop")


def build(L, cls, model):
    """container from a model list whose values are ints or ('NEST', clsname, pairs)"""
    out = []
    for k, v in model:
        if isinstance(v, (tuple, list)) and len(v) == 3 and v[0] == "NEST":
            v = getattr(L.collections, v[1])([tuple(p) for p in v[2]])
        out.append((k, v))
    return getattr(L.collections, cls)(out) if isinstance(cls, str) else cls(out)


def match(L, c, clsname, model):
    """c is exactly the container the model describes (classes, order, multiplicity, values, storage)"""
    cls = getattr(L.collections, clsname)
    if type(c) is not cls:
        return False
    items = list(c)
    if len(items) != len(model) or len(c) != len(model):
        return False
    conds = []
    flat = []
    for (k, v), (mk, mv) in zip(items, model):
        if k != mk:
            return False
        if isinstance(mv, (tuple, list)) and len(mv) == 3 and mv[0] == "NEST":
            conds.append(match(L, v, mv[1], [tuple(p) for p in mv[2]]))
            flat.append((k, v))
        else:
            if hasattr(v, "items"):
                return False
            conds.append(veq_pair(v, mv))
            flat.append((k, mv))
    # the complete observer suite of C10 on this level (nested values compared by identity through ==)
    conds.append(observe(L, cls, c, flat, len(flat)))
    return zand(conds)


def nest_index(model):
    for i, (k, v) in enumerate(model):
        if isinstance(v, (tuple, list)) and len(v) == 3 and v[0] == "NEST":
            return i
    return None


def apply_mut(L, c, mut, a):
    """one documented mutation; returns nothing.  KeyError/IndexError are part of the behaviour."""
    try:
        if mut == "append":
            c.append(a["key"], a["value"])
        elif mut == "setitem":
            c[a["key"]] = a["value"]
        elif mut == "delitem":
            del c[a["key"]]
        elif mut == "pop":
            c.pop()
        elif mut == "insert":
            c.insert(a["index"], a["key"], a["value"])
        elif mut == "clear":
            c.clear()
        elif mut == "setdefault":
            c.setdefault(a["key"], a["value"])
        elif mut == "update":
            c.update([(a["key"], a["value"])])
        elif mut.startswith("nested_"):
            inner = [v for _, v in c if hasattr(v, "items")][0]
            apply_mut(L, inner, mut[7:], a)
    except (KeyError, IndexError):
        pass


class Copy(Harness):
    prop = "C11"
    alphabet = "ascii"
    must_reach = ("copied",)
    functions = ("pvl.collections.OrderedMultiDict.copy", "…__init__", "…extend", "…append", "…__reduce__ (if any)",
                 "copy.copy / copy.deepcopy / pickle protocol on the dict subclass", "mutators and observers of C10")
    timeout = 170

    @property
    def bounds(self):
        return ("class %s, %d pairs (all key patterns)%s, mechanism %s, then mutation %s on the %s with every "
                "argument choice; values %s" % (
                    self.cls, self.n, ", one value a nested %s of 0-2 pairs" % self.nested if self.nested else "",
                    self.mech, self.mut, self.side,
                    "symbolic ints" if self.mech in MECH[:2] else "concrete distinct ints (C boundary)"))

    def inputs(self, ctx):
        n = self.n
        keys, mx = [], -1
        for i in range(n):
            k = pick(ctx, "k%d" % i, 0, min(mx + 1, len(POOL) - 1))
            mx = max(mx, k)
            keys.append(k)
        symbolic = self.mech in MECH[:2]
        cnt = [10]

        def val(h):
            if symbolic:
                return SymInt(ctx.fresh_int(h, -3, 3))
            cnt[0] += 1
            return cnt[0]
        model = [(POOL[k], val("v%d" % i)) for i, k in enumerate(keys)]
        if self.nested and n:
            at = pick(ctx, "nat", 0, n - 1)
            m = pick(ctx, "nlen", 0, 2)
            ik, imx = [], -1
            for j in range(m):
                kk = pick(ctx, "nk%d" % j, 0, min(imx + 1, 2))
                imx = max(imx, kk)
                ik.append(kk)
            model[at] = (model[at][0], ("NEST", self.nested, [(POOL[kk], val("nv%d" % j)) for j, kk in enumerate(ik)]))
        a = {"key": POOL[pick(ctx, "ak", 0, min(mx + 1, len(POOL) - 1))], "value": val("av"),
             "index": pick(ctx, "ai", -n - 1, n + 1)}
        return {"model": model, "args": a}

    def do_copy(self, c):
        if self.mech == "copy_method":
            return c.copy()
        if self.mech == "copy.copy":
            return copy.copy(c)
        if self.mech == "copy.deepcopy":
            return copy.deepcopy(c)
        return pickle.loads(pickle.dumps(c))

    def prop_fn(self, L, inp):
        model = [(k, tuple(v) if isinstance(v, list) else v) for k, v in (tuple(p) for p in inp["model"])]
        a = dict(inp["args"])
        c = build(L, self.cls, model)
        if match(L, c, self.cls, model) is False:
            return Outcome("base", False, None)
        try:
            d = self.do_copy(c)
        except (AttributeError, TypeError, pickle.PicklingError) as e:
            return Outcome("copy-raised", False, {"exception": type(e).__name__})
        conds = [match(L, d, self.cls, model), match(L, c, self.cls, model), d is not c, B(d == c), znot(B(d != c))]
        deep = self.mech in ("copy.deepcopy", "pickle")
        ni = nest_index(model)
        if ni is not None and len(d) == len(model):
            shared = d[ni][1] is c[ni][1]
            conds.append((not shared) if deep else True)
        if zand(conds) is False:
            return Outcome("copied", False, {"copy": snapshot(d), "original": snapshot(c)})
        # independence: mutate one side, the other must still match the model
        mut = self.mut
        if mut.startswith("nested_") and (ni is None or not deep):
            return Outcome("copied", zand(conds), {"copy": snapshot(d), "original": snapshot(c)})
        target, other = (d, c) if self.side == "copy" else (c, d)
        apply_mut(L, target, mut, a)
        conds.append(match(L, other, self.cls, model))
        return Outcome("copied", zand(conds), {"copy": snapshot(d), "original": snapshot(c)})


# --------------------------------------------------------------------------- mutable values below the containers
def deep_module(L, cls):
    col = L.collections
    Q = col.Quantity
    return getattr(col, cls)([
        ("s", [1, 2]), ("q", Q([0.0, 1.0], "mm")), ("t", (1, [2, 3])), ("s", [[9], [10]]),
        ("g", col.PVLGroup([("l", [4]), ("q2", Q([5], "m")), ("l", [6])])), ("e", {7}),
        ("o", col.PVLObject([("h", col.PVLGroup([("d", [8])])), ("u", (Q([11], "s"),))])),
    ])


# every mutable object reachable from the module: (description, accessor)
LEAVES = [
    ("list value", lambda m: m.getall("s")[0]), ("list inside a Quantity", lambda m: m["q"].value),
    ("list inside a tuple", lambda m: m["t"][1]), ("inner list of a nested list", lambda m: m.getall("s")[1][0]),
    ("list in a group", lambda m: m["g"].getall("l")[1]), ("list inside a Quantity in a group", lambda m: m["g"]["q2"].value),
    ("set value", lambda m: m["e"]), ("list in a group in an object", lambda m: m["o"]["h"]["d"]),
    ("list inside a Quantity inside a tuple in an object", lambda m: m["o"]["u"][0].value),
    ("nested group", lambda m: m["g"]), ("group in an object", lambda m: m["o"]["h"]),
]


def freeze(v):
    """structural snapshot incl. classes"""
    if hasattr(v, "getall"):
        return (type(v).__name__, tuple((k, freeze(x)) for k, x in v.items()))
    if isinstance(v, tuple) and hasattr(v, "_fields"):
        return (type(v).__name__, tuple(freeze(x) for x in v))
    if isinstance(v, (list, tuple)):
        return (type(v).__name__, tuple(freeze(x) for x in v))
    if isinstance(v, (set, frozenset)):
        return (type(v).__name__, tuple(sorted(repr(x) for x in v)))
    return v


class DeepValues(Harness):
    """copy.deepcopy / pickle: nothing mutable is shared at any depth - lists inside Quantities and tuples, sets,
    nested lists, containers inside containers; the solver chooses which object is changed in place and on
    which side, the other side must be unchanged"""
    prop = "C11"
    alphabet = "ascii"
    must_reach = ("deep",)
    functions = ("copy.deepcopy / pickle on pvl.collections.*", "OrderedMultiDict.__reduce__/__deepcopy__ (if any)")

    @property
    def bounds(self):
        return ("class %s, mechanism %s, a fixed module with %d mutable objects at depths 1-4 (%s); the object "
                "changed in place and the side are solver-chosen" % (self.cls, self.mech, len(LEAVES),
                                                                    ", ".join(d for d, _ in LEAVES)))

    def inputs(self, ctx):
        return {"leaf": pick(ctx, "leaf", 0, len(LEAVES) - 1), "side": pick(ctx, "side", 0, 1)}

    def prop_fn(self, L, inp):
        m = deep_module(L, self.cls)
        before = freeze(m)
        d = copy.deepcopy(m) if self.mech == "copy.deepcopy" else pickle.loads(pickle.dumps(m))
        ok = freeze(d) == before and freeze(m) == before and d == m and type(d) is type(m)
        acc = LEAVES[inp["leaf"]][1]
        for i, (_, f) in enumerate(LEAVES):
            ok = ok and f(d) is not f(m)
        target, other = (d, m) if inp["side"] == 0 else (m, d)
        x = acc(target)
        if isinstance(x, list):
            x.append(99)
        elif isinstance(x, set):
            x.add(99)
        else:
            x.append("zz", 99)
        ok = ok and freeze(other) == before and freeze(target) != before
        return Outcome("deep", ok, {"changed": LEAVES[inp["leaf"]][0], "side": "copy" if inp["side"] == 0 else "original",
                                    "other_side_after": repr(freeze(other))[:300]})


def snapshot(c):
    if hasattr(c, "getall"):
        return [type(c).__name__] + [(k, snapshot(v)) for k, v in c.items()]
    return c


def obligations(tier):
    obs = []
    nmax = {"quick": 2, "thorough": 3}[tier]
    quick = tier == "quick"
    for cls in CLASSES:
        for mech in MECH:
            # the subclasses add no code to these paths: the largest pre-states only for the base class and PVLModule
            for n in range(0, (nmax if cls in ("OrderedMultiDict", "PVLModule") else 2) + 1):
                nests = (None, "PVLGroup") if quick else (None, "PVLGroup", "PVLObject")
                for nested in (nests if n else (None,)):
                    for mut in MUTS:
                        if mut.startswith("nested_") and (nested is None or mech in MECH[:2]):
                            continue
                        if quick and cls in ("OrderedMultiDict", "PVLModule") and mut in ("setdefault", "update", "nested_setitem"):
                            continue
                        if quick and cls not in ("OrderedMultiDict", "PVLModule") and mut not in (
                                "append", "setitem", "pop", "nested_append"):
                            continue
                        for side in ("copy", "original"):
                            if quick and side == "original" and mut not in ("append", "setitem", "pop", "nested_append"):
                                continue
                            obs.append(Copy(cls=cls, mech=mech, n=n, nested=nested, mut=mut, side=side))
    for cls in CLASSES:
        for mech in ("copy.deepcopy", "pickle"):
            obs.append(DeepValues(cls=cls, mech=mech))
    return obs


def main(tier="quick", seed=0, jobs=16, only=None, time_scale=1.0):
    obs = obligations(tier)
    if only:
        obs = [o for o in obs if only in o.name]
    return run_property("C11", obs, tier, seed, jobs=jobs, time_scale=time_scale)
