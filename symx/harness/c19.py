"""C19 - pvl.new loaders return the same content as the default loaders.

Differential on the same symbolic text: pvl.new.loads(t) against pvl.loads(t)
for the C03 spelling templates (well-formed by construction; parameter names
concrete, values with symbolic parts) and the C03 block templates with every
keyword letter case: both succeed, the sequences of (name, value) items are
equal at every level, the classes are the new multi-dict ones, and
pvl.new.dumps(new) equals pvl.dumps(old) as strings for the four encoders.
The third-party multidict package executes concretely (names are concrete).
"""
from ..core import SymStr, B, zand
from .common import Harness, Outcome, dialect, run_property, str_eq, veq
from . import c03, c08


def same_items(a, b, level=0, newcls=True):
    """a: new-style container, b: old-style container (newcls False: the caller's own parser decides the classes,
    which are then the same on both sides)"""
    want = {"PVLModule": "PVLModuleNew", "PVLGroup": "PVLGroupNew", "PVLObject": "PVLObjectNew"}
    if (want.get(type(b).__name__) if newcls else type(b).__name__) != type(a).__name__:
        return False
    ia, ib = list(a.items()), list(b.items())
    if len(ia) != len(ib):
        return False
    conds = []
    for (k1, v1), (k2, v2) in zip(ia, ib):
        if k1 != k2:
            return False
        if hasattr(v1, "items") or hasattr(v2, "items"):
            if not (hasattr(v1, "items") and hasattr(v2, "items")):
                return False
            conds.append(same_items(v1, v2, level + 1, newcls))
        else:
            conds.append(veq(v1, v2))
    return zand(conds)


def snap(m):
    if hasattr(m, "items"):
        return [type(m).__name__] + [(k, snap(v)) for k, v in m.items()]
    if isinstance(m, list):
        return [snap(x) for x in m]
    return m


def compare(L, text, encoders):
    try:
        old = L.pvl.loads(text)
        r_old = "ok"
    except (L.exceptions.LexerError, L.exceptions.ParseError) as e:
        r_old = type(e).__name__
    try:
        new = L.new.loads(text)
        r_new = "ok"
    except (L.exceptions.LexerError, L.exceptions.ParseError) as e:
        r_new = type(e).__name__
    if r_old != "ok" or r_new != "ok":
        # the templates are well-formed: both must succeed
        return Outcome("rejected", False, {"text": text, "old": r_old, "new": r_new})
    conds = [same_items(new, old)]
    col = L.collections
    texts = {}
    for name in encoders:
        d = dialect(L, name)

        def dump(mod, newcls):
            E = d["encoder"](**(dict(group_class=col.PVLGroupNew, object_class=col.PVLObjectNew) if newcls else {}))
            try:
                return ("ok", (L.new.dumps if newcls else L.pvl.dumps)(mod, encoder=E))
            except ValueError:
                return ("ValueError", None)
            except TypeError:
                return ("TypeError", None)
        a, b = dump(new, True), dump(old, False)
        conds.append(a[0] == b[0] and (a[0] != "ok" or str_eq(a[1], b[1])))
        texts[name] = a[1]
    # the default encoders of the two entry points
    try:
        da = ("ok", L.new.dumps(new))
    except (ValueError, TypeError) as e:
        da = (type(e).__name__, None)
    try:
        db = ("ok", L.pvl.dumps(old))
    except (ValueError, TypeError) as e:
        db = (type(e).__name__, None)
    conds.append(da[0] == db[0] and (da[0] != "ok" or str_eq(da[1], db[1])))
    return Outcome("same", zand(conds), {"text": text, "new": snap(new), "dumps": texts})


FUNCS = ("pvl.new.loads", "pvl.new.dumps", "pvl.loads", "pvl.dumps", "pvl.collections.PVLMultiDict.append/__getitem__/"
         "__repr__/insert/pop/key_index", "pvl.parser.OmniParser.*", "pvl.encoder.*Encoder.encode", "multidict._multidict_py.MultiDict (concrete)")
ENC = ("PVL", "ODL", "PDS3", "ISIS")


def mk(base):
    class _New(base):
        prop = "C19"
        functions = FUNCS
        must_reach = ("same",)

        def inputs(self, ctx):
            inp = base.inputs(self, ctx)
            sh = getattr(self, "shape", None)
            if isinstance(self, c03.Decimal) and sh and sh.endswith("dd") and ("E" in sh or "e" in sh):
                # the value is DUMPED here: repr() of a float is modelled for exponents up to +-29 only
                # (two-digit exponents beyond that are read, not written, in C03)
                ctx.assume(inp["lexeme"].cs[-2].z <= ord("2"))
            return inp

        @property
        def bounds(self):
            b = base.bounds.fget(self) if isinstance(getattr(base, "bounds", None), property) else getattr(base, "bounds", "")
            sh = getattr(self, "shape", None)
            if isinstance(self, c03.Decimal) and sh and sh.endswith("dd") and ("E" in sh or "e" in sh):
                b = str(b) + "; exponents up to 29"
            return b

        def prop_fn(self, L, inp):
            if isinstance(self, c03.Blocks):
                d = ";" if self.delim else ""
                inner = " x = 1" + d + "\n"
                if self.nested:
                    inner += " OBJECT = o" + d + "\n  y = 2" + d + "\n END_OBJECT" + d + "\n x = 3" + d + "\n"
                text = inp["begin"] + " = g" + d + "\n" + inner + inp["end"] + (" = g" if self.endname else "") + d + \
                    "\nz = 9" + d + "\nEND" + d + "\n"
            else:
                lexeme, value = self.spell(L, inp)
                text, exp = self.wrap(lexeme, value)
            return compare(L, text, ENC if getattr(self, 'tier', 'quick') != 'quick' else ('PVL', 'PDS3'))
    _New.__name__ = base.__name__ + "New"
    _New.__qualname__ = _New.__name__
    return _New


BasedNew, DecimalNew, QuotedNew, UnquotedNew, UnitsNew, BlocksNew = (mk(b) for b in (
    c03.Based, c03.Decimal, c03.Quoted, c03.Unquoted, c03.Units, c03.Blocks))
NEWCLS = {"Based": BasedNew, "Decimal": DecimalNew, "Quoted": QuotedNew, "Unquoted": UnquotedNew, "Units": UnitsNew,
          "Blocks": BlocksNew}


class GapsNew(c08.Gaps):
    """texts the default loader tolerates although a value is missing (C08): pvl.new.loads must tolerate exactly
    the same, with the same items, placeholders and errors list"""
    prop = "C19"
    functions = FUNCS
    must_reach = ("parity",)

    @property
    def bounds(self):
        return "pvl.new.loads against pvl.loads: " + c08.Gaps.bounds.fget(self)

    def prop_fn(self, L, inp):
        rm = list(inp["rm"])
        ws = inp["ws"]
        wcs = list(ws) if isinstance(ws, str) else [SymStr((c,)) if not isinstance(c, str) else c for c in ws.cs]
        text = ""
        for i, (t, ai, is_eq) in enumerate(self.tokens(rm)):
            if i:
                text = text + wcs[i - 1]
            text = text + t
        return parity(L, text, {})


def parity(L, text, kw_of, newcls=True):
    """same outcome class; when both load: same items at every level and the same errors list"""
    def run(fn):
        try:
            return ("ok", fn(text, **(kw_of(L) if callable(kw_of) else kw_of)))
        except L.exceptions.LexerError:
            return ("LexerError", None)
        except L.exceptions.ParseError:
            return ("ParseError", None)
    r_old, r_new = run(L.pvl.loads), run(L.new.loads)
    if r_old[0] != r_new[0]:
        return Outcome("parity", False, {"text": text, "old": r_old[0], "new": r_new[0]})
    if r_old[0] != "ok":
        return Outcome("parity", True, {"text": text, "both": r_old[0]})
    eo, en = list(getattr(r_old[1], "errors", [])), list(getattr(r_new[1], "errors", []))
    conds = [same_items(r_new[1], r_old[1], 0, newcls), len(eo) == len(en)]
    if len(eo) == len(en):
        from .common import int_eq
        conds += [int_eq(a, b) for a, b in zip(eo, en)]
    return Outcome("parity", zand(conds), {"text": text, "new": snap(r_new[1]), "old": snap(r_old[1])})


KWARGS = {
    "decoder_omni": lambda L: dict(decoder=L.decoder.OmniDecoder()),
    "decoder_pvl": lambda L: dict(decoder=L.decoder.PVLDecoder()),
    "decoder_odl": lambda L: dict(decoder=L.decoder.ODLDecoder()),
    "grammar_pvl": lambda L: dict(grammar=L.grammar.PVLGrammar()),
    "grammar_odl_decoder_odl": lambda L: dict(grammar=L.grammar.ODLGrammar(), decoder=L.decoder.ODLDecoder()),
    "parser_pvl": lambda L: dict(parser=L.parser.PVLParser()),
    "none": lambda L: {},
}


class Kwargs(Harness):
    """the keyword arguments both entry points document (parser=, grammar=, decoder=): the same text with the same
    arguments gives the same outcome and the same items"""
    prop = "C19"
    functions = FUNCS
    must_reach = ("parity",)
    alphabet = "omni"

    @property
    def bounds(self):
        return ("pvl.new.loads against pvl.loads with keyword arguments %s: text 'a = x<c1><c2> <sep>b = 2<sep>' with two "
                "unconstrained characters (alphabet 'omni') and a symbolic separator" % self.kwargs)

    def inputs(self, ctx):
        return {"c": ctx.fresh_str(self.n, "c"), "sep": SymStr([ctx.fresh_char("sep", ((10, 10), (32, 32), (59, 59)))])}

    def prop_fn(self, L, inp):
        text = "a = x" + inp["c"] + " " + inp["sep"] + "b = 2" + inp["sep"] + "END"
        return parity(L, text, KWARGS[self.kwargs], newcls=not self.kwargs.startswith("parser"))


class Values(Harness):
    """names of one to four characters (mixed letter case, also differing only in case) with keyword values in
    every letter case, sequences, sets and quantities, at the top level and inside blocks: same items from both
    loaders"""
    prop = "C19"
    functions = FUNCS
    must_reach = ("parity",)
    alphabet = "ascii"
    bounds = ("a fixed label with names of 1-4 characters (ID, Id, id, K, abcd, a name repeated three times, a block named "
              "like a parameter) whose values are NULL / TRUE / FALSE in EVERY letter-case spelling (symbolic), "
              "sequences, a set, quantities and a date")

    def inputs(self, ctx):
        def cased(word, h):
            return SymStr([ctx.fresh_char("%s%d" % (h, i), ((ord(ch), ord(ch)), (ord(ch.lower()), ord(ch.lower()))))
                           for i, ch in enumerate(word)])
        return {"n": cased("NULL", "n"), "t": cased("TRUE", "t"), "f": cased("FALSE", "f")}

    def prop_fn(self, L, inp):
        n, t, f = inp["n"], inp["t"], inp["f"]
        text = ("ID = " + n + "\nId = 1\nid = " + t + "\nK = " + n + "\nabcd = " + f + "\nK = (" + n + ", 1, " + t + ")\n"
                "GROUP = ID\n ID = " + n + "\n ab = {1, 2}\n OBJECT = K\n  ab = " + n + "\n  q = 5 <m>\n END_OBJECT\n"
                " d = 2001-01-01\nEND_GROUP\nK = " + f + "\nab = (1 <m>, 2.5 <s>)\nEND\n")
        return parity(L, text, {})


def obligations(tier):
    obs = [Values()]
    for t in c08.TEMPLATES:
        obs.append(GapsNew(template=t, dialect="Omni"))
    for k in KWARGS:
        obs.append(Kwargs(kwargs=k, n=1))      # two characters can spell a name: the multidict cannot hash a proxy
    for o in c03.obligations(tier):
        if o.kw.get("dialect") != "Omni":
            continue
        if type(o).__name__ == "Quoted" and o.kw.get("n", 0) >= 3:
            continue       # three free characters x four dumps does not finish in the budget here; the loader side is C03's
        bits = 4 if (type(o).__name__ == 'Quoted' and o.kw.get('n', 0) >= 2) else 0
        obs.append(NEWCLS[type(o).__name__](tier=tier, shard_bits=bits, **o.kw))
    return obs


def main(tier="quick", seed=0, jobs=16, only=None, time_scale=1.0):
    obs = obligations(tier)
    if only:
        obs = [o for o in obs if only in o.name]
    return run_property("C19", obs, tier, seed, jobs=jobs, time_scale=time_scale)
