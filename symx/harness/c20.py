"""C20 - command-line tools are faithful front-ends of the library.

Reachable kernel (argparse, file opening, stdin/stdout and exit status are the
I/O boundary and have no encoding - main(argv) is left to the existing tests):

 Flavor     pvl_validate.pvl_flavor(text, name, dialects[name], ...) on the C08
            templates (every removal pattern) and the C07 templates with
            symbolic parts, against the harness's OWN dialect table: the
            'loads' verdict <=> that dialect's load succeeds, the 'encodes'
            verdict <=> dumping the loaded module with that dialect's encoder
            succeeds (None when it did not load).
 Report     report / report_many / build_line with the 5 x (loads, encodes)
            verdicts chosen by the solver: each cell is the text its verdict
            maps to, one row per file, one column per dialect in table order,
            widths by the longest entry.
 Translate  pvl_translate.formats[F].dump(module, stream) writes exactly
            pvl.dumps(module, encoder=<F's encoder class>()) for a module with a
            symbolic leaf; JSON on concrete modules.
"""
import json
import logging

from ..core import SymStr, B, zand, Ctx, Unsupported
from .common import Harness, Outcome, run_property, str_eq
from . import c07, c08, rt
from .c09 import WText

TABLE = {
    "PDS3": ("ODLParser", "PDSGrammar", "PDSLabelDecoder", "PDSLabelEncoder"),
    "ODL": ("ODLParser", "ODLGrammar", "ODLDecoder", "ODLEncoder"),
    "PVL": ("PVLParser", "PVLGrammar", "PVLDecoder", "PVLEncoder"),
    "ISIS": ("OmniParser", "ISISGrammar", "OmniDecoder", "ISISEncoder"),
    "Omni": ("OmniParser", "OmniGrammar", "OmniDecoder", "PVLEncoder"),
}
ORDER = ("PDS3", "ODL", "PVL", "ISIS", "Omni")


def own_row(L, name):
    p, g, d, e = TABLE[name]
    G = getattr(L.grammar, g)()
    D = getattr(L.decoder, d)(grammar=G)
    return getattr(L.parser, p)(grammar=G, decoder=D), getattr(L.encoder, e)(grammar=G, decoder=D)


def own_verdict(L, name, text):
    P, E = own_row(L, name)
    try:
        m = P.parse(text)
    except (L.exceptions.LexerError, L.exceptions.ParseError):
        return (False, None)
    try:
        E.encode(m)
    except ValueError:
        return (True, False)
    return (True, True)


class Flavor(Harness):
    prop = "C20"
    must_reach = ("verdict",)
    functions = ("pvl.pvl_validate.pvl_flavor", "pvl.pvl_validate.dialects", "pvl.loads", "pvl.dumps")

    @property
    def alphabet(self):
        return "ascii"

    @property
    def bounds(self):
        return "dialect row %s, text family %s" % (self.dialect, self.family)

    def source(self):
        fam = self.family.split(":")
        if fam[0] == "gaps":
            return c08.Gaps(template=fam[1], dialect="PVL")
        return c07.Stable(template=fam[1], n=int(fam[2]), encoder="PVL")

    def inputs(self, ctx):
        if self.family.startswith("time:") or self.family.startswith("lit:"):
            shape = self.family.split(":", 1)[1]
            return {"x": SymStr([ctx.fresh_char("d%d" % i, ((48, 57),)) if ch == "d" else ch for i, ch in enumerate(shape)])}
        return self.source().inputs(ctx)

    def text(self, inp):
        if self.family.startswith("time:"):
            return "t = " + inp["x"] + "\nu = 1\nEND\n"
        if self.family.startswith("lit:"):
            # the symbolic digits sit in a value; the rest of the family text is literal
            return "BEGIN_GROUP = g\n r = " + inp["x"] + "\nEND_GROUP = g\nBEGIN_OBJECT = o\n k = 1\nEND_OBJECT\nEND\n" \
                if self.family.endswith("B") else "r = " + inp["x"] + "\ns = +d\nEND\n".replace("d", "1")
        src = self.source()
        if isinstance(src, c08.Gaps):
            rm = list(inp["rm"])
            ws = inp["ws"]
            out = ""
            for i, (t, ai, is_eq) in enumerate(src.tokens(rm)):
                if i:
                    out = out + ws[i - 1]
                out = out + t
            return out
        return src.text0(inp)

    def prop_fn(self, L, inp):
        text = self.text(inp)
        tool = L.tool("pvl_validate")
        row = tool.dialects[self.dialect]
        logging.disable(logging.CRITICAL)      # pvl_flavor logs every failure: formatting is not the subject here
        got = tool.pvl_flavor(text, self.dialect, row, "file.lbl", 0)
        row["parser"].errors = []
        row["parser"].doc = ""
        exp = own_verdict(L, self.dialect, text)
        return Outcome("verdict", tuple(got) == tuple(exp), {"text": text, "got": list(got), "expected": list(exp)})


class Report(Harness):
    prop = "C20"
    alphabet = "ascii"
    must_reach = ("report",)
    functions = ("pvl.pvl_validate.report", "pvl.pvl_validate.report_many", "pvl.pvl_validate.build_line")

    @property
    def bounds(self):
        return "%d file(s), every combination of the 5 x (loads, encodes) verdicts of the first file" % self.files

    def inputs(self, ctx):
        v = []
        for i in range(5):
            loads = ctx.decide(ctx.fresh_bool("l%d" % i))
            enc = ctx.decide(ctx.fresh_bool("e%d" % i)) if loads else None
            v.append([loads, enc])
        return {"verdicts": v}

    def prop_fn(self, L, inp):
        tool = L.tool("pvl_validate")
        first = {k: tuple(v) for k, v in zip(ORDER, inp["verdicts"])}
        others = [("second/longer_name.lbl", {k: (True, False) for k in ORDER}),
                  ("c", {k: (False, None) for k in ORDER})][:self.files - 1]
        reports = [("a.lbl", first)] + others
        got = tool.report(reports, list(ORDER))
        if self.files == 1:
            lw = {True: "Loads", False: "does NOT load"}
            ew = {True: "Encodes", False: "does NOT encode", None: ""}
            w1, w2, w3 = max(len(k) for k in ORDER), 13, 15
            lines = []
            for k in ORDER:
                lines.append(" | ".join([k.ljust(w1), format(lw[first[k][0]], "^%d" % w2), format(ew[first[k][1]], "^%d" % w3)]))
            exp = "\n".join(lines)
        else:
            lw = {True: "L", False: "No L"}
            ew = {True: "E", False: "No E", None: ""}
            w1 = max(len(r[0]) for r in reports)
            fw = 4 + 4 + 1
            rule = "-+-".join(["-" * w1] + ["-" * fw] * 5)
            ctr = lambda t, w: format(t, "^%d" % w)       # format-style centring (odd padding goes right)
            head = " | ".join(["File".ljust(w1)] + [ctr(k, fw) for k in ORDER])
            lines = [rule, head, rule]
            for name, res in reports:
                cells = [name.ljust(w1)]
                for k in ORDER:
                    cells.append(ctr(ctr(lw[res[k][0]], 4) + " " + ctr(ew[res[k][1]], 4), fw))
                lines.append(" | ".join(cells))
            exp = "\n".join(lines)
        return Outcome("report", got == exp, {"got": got, "expected": exp})


class Faults(Harness):
    """The library calls are pvl_flavor's environment.  They are replaced by a stub whose outcome the solver
    chooses - the load returns, or raises LexerError, ParseError or some OTHER exception (RuntimeError,
    RecursionError on deep nesting, KeyError ...); the dump returns or raises ValueError - together with the
    verbosity.  Whatever happens the verdict is (load succeeded, dump succeeded or None) and the report for the
    file is produced."""
    prop = "C20"
    alphabet = "ascii"
    must_reach = ("verdict",)
    functions = ("pvl.pvl_validate.pvl_flavor", "pvl.pvl_validate.report")
    LOADS = ("ok", "LexerError", "ParseError", "RuntimeError", "RecursionError", "KeyError", "ValueError")
    DUMPS = ("ok", "ValueError", "LexerError")
    stubs = ("pvl.loads / pvl.dumps as seen by pvl_validate: outcome chosen by the solver (documented contract: "
             "LexerError/ParseError on load, ValueError on dump; any other exception on load is caught by the tool's "
             "own catch-all)",)

    @property
    def bounds(self):
        return ("dialect row %s; load outcome in %s, dump outcome in %s, verbosity 0-3; one file" % (
            self.dialect, self.LOADS, self.DUMPS))

    def inputs(self, ctx):
        from .c10 import pick
        return {"load": pick(ctx, "load", 0, len(self.LOADS) - 1), "dump": pick(ctx, "dump", 0, len(self.DUMPS) - 1),
                "verbose": pick(ctx, "verbose", 0, 3)}

    def prop_fn(self, L, inp):
        tool = L.tool("pvl_validate")
        lo, du, verbose = self.LOADS[inp["load"]], self.DUMPS[inp["dump"]], inp["verbose"]
        ex = L.exceptions

        def exc(name):
            if name == "LexerError":
                return ex.LexerError("stub", "a = b", 1, "a")
            if name == "ParseError":
                return ex.ParseError("stub")
            return {"RuntimeError": RuntimeError, "RecursionError": RecursionError, "KeyError": KeyError,
                    "ValueError": ValueError}[name]("stub")

        class Stub:
            __version__ = "stub"

            @staticmethod
            def loads(text, **kw):
                if lo != "ok":
                    raise exc(lo)
                return L.collections.PVLModule(a=1)

            @staticmethod
            def dumps(m, **kw):
                if du != "ok":
                    raise exc(du)
                return "a = 1"
        real = tool.pvl
        logging.disable(logging.CRITICAL)
        tool.pvl = Stub
        try:
            try:
                got = tool.pvl_flavor("a = 1", self.dialect, tool.dialects[self.dialect], "file.lbl", verbose)
                results = {k: (True, True) for k in ORDER}
                results[self.dialect] = got
                rep = tool.report([("file.lbl", results)], list(ORDER))
            except Exception as e:       # noqa: the tool must not die
                return Outcome("died", False, {"load": lo, "dump": du, "verbose": verbose, "exception": repr(e)[:200]})
        finally:
            tool.pvl = real
        exp = (True, du == "ok") if lo == "ok" else (False, None)
        words = {True: "Loads", False: "does NOT load"}
        ok = tuple(got) == exp and isinstance(rep, str) and words[exp[0]] in rep
        return Outcome("verdict", ok, {"load": lo, "dump": du, "verbose": verbose, "got": list(got), "expected": list(exp)})


class Translate(Harness):
    prop = "C20"
    must_reach = ("written", "refused")
    functions = ("pvl.pvl_translate.formats", "pvl.pvl_translate.PVLWriter.dump", "pvl.dump", "pvl.dumps")
    ENC = {"PDS3": "PDSLabelEncoder", "ODL": "ODLEncoder", "ISIS": "ISISEncoder", "PVL": "PVLEncoder"}

    @property
    def alphabet(self):
        return rt.ALPHA[self.fmt]

    @property
    def bounds(self):
        return "output format %s, module shape %s with a string leaf of length %d" % (self.fmt, self.shape, self.n)

    def inputs(self, ctx):
        return {"x": rt.leaf_inputs(ctx, "str", self.n, self.fmt)}

    def prop_fn(self, L, inp):
        tool = L.tool("pvl_translate")
        E = getattr(L.encoder, self.ENC[self.fmt])()
        try:
            exp = ("ok", L.pvl.dumps(rt.shape_module(L, self.shape, inp["x"]), encoder=E))
        except ValueError:
            exp = ("ValueError", None)
        except TypeError:
            exp = ("TypeError", None)
        w = WText()
        try:
            tool.formats[self.fmt].dump(rt.shape_module(L, self.shape, inp["x"]), w)
            got = ("ok", w.got[0] if len(w.got) == 1 else None)
        except ValueError:
            got = ("ValueError", None)
        except TypeError:
            got = ("TypeError", None)
        if got[0] != "ok":
            return Outcome("refused", got[0] == exp[0], {"expected": exp[0]})
        ok = exp[0] == "ok" and got[1] is not None and str_eq(got[1], exp[1])
        return Outcome("written", ok, {"text": got[1]})


def file_bytes(text, encoding):
    """the bytes a text file opened with *encoding* holds after *text* was written to it: ints / SymInts.
    UTF-8 and ISO 8859-1 / ASCII modelled (one decision per symbolic character)"""
    import codecs
    from ..core import SymInt, SymChar
    name = codecs.lookup(encoding).name
    out = []
    for c in (SymStr.of(text).cs if not isinstance(text, str) else text):
        if isinstance(c, str):
            out.extend(c.encode(name))
            continue
        z = SymInt(c.z)
        if name == "utf-8":
            if bool(z < 128):
                out.append(z)
            elif bool(z < 0x800):
                out += [192 + z // 64, 128 + z % 64]
            else:
                raise Unsupported("UTF-8 of a symbolic character beyond U+07FF")
        elif name in ("iso8859-1", "ascii"):
            if not bool(z < (256 if name == "iso8859-1" else 128)):
                raise UnicodeEncodeError(name, "?", 0, 1, "ordinal not in range [symbolic]")
            out.append(z)
        else:
            raise Unsupported("file encoding %s" % name)
    return out


class TranslateMain(Harness):
    """the command line itself: pvl_translate.main(['-of', F, infile, outfile]) with the file layer of argparse
    replaced by stub streams (the infile holds a label with a symbolic string, the outfile records what is written
    and the encoding it was OPENED with).  The bytes of the output file are those of a file to which
    pvl.dump(pvl.load(infile), path, encoder=F's) writes (both go through the locale's encoding, UTF-8 here)"""
    prop = "C20"
    alphabet = "latin"
    must_reach = ("written", "refused")
    functions = ("pvl.pvl_translate.main", "pvl.pvl_translate.arg_parser", "pvl.pvl_translate.PVLWriter.dump", "pvl.load",
                 "pvl.dump")
    stubs = ("argparse.FileType -> stub text streams that record mode, encoding and errors (argparse itself runs)",
             "locale encoding = UTF-8")
    ENC = Translate.ENC

    @property
    def bounds(self):
        return ("pvl_translate.main(['-of', '%s', 'in.lbl', 'out.lbl']) on the label a = \"<s>\" / GROUP g / b = (1, \"<s>\") "
                "with s every string of length %d over ISO 8859-1 without quotes" % (self.fmt, self.n))

    def inputs(self, ctx):
        s = ctx.fresh_str(self.n, "s")
        for c in s.cs:
            ctx.assume(c.z != 34)
        return {"s": s}

    def prop_fn(self, L, inp):
        import argparse
        import locale
        tool = L.tool("pvl_translate")
        text = 'a = "' + inp["s"] + '"\nGROUP = g\n b = (1, "' + inp["s"] + '")\nEND_GROUP\nEND\n'
        opened = {}

        class RText:
            """a text file opened for reading whose content decoded without error"""
            def __init__(self, t):
                self.t, self.pos = t, 0

            def readable(self):
                return True

            def tell(self):
                return self.pos

            def seek(self, p):
                self.pos = p

            def read(self, n=-1):
                r = self.t[self.pos:] if n is None or n < 0 else self.t[self.pos:self.pos + n]
                self.pos = len(self.t) if n is None or n < 0 else min(len(self.t), self.pos + n)
                return r

        class FileTypeStub:
            def __init__(self, mode="r", bufsize=-1, encoding=None, errors=None):
                self.mode, self.encoding, self.errors = mode, encoding, errors

            def __call__(self, name):
                if "r" in self.mode:
                    opened["in"] = (name, self.mode, self.encoding)
                    return RText(text)
                w = WText()
                opened["out"] = (name, self.mode, self.encoding, self.errors, w)
                return w

        class ArgparseShim:
            FileType = FileTypeStub

            def __getattr__(self, n):
                return getattr(argparse, n)
        E = getattr(L.encoder, self.ENC[self.fmt])()
        try:
            exp = ("ok", L.pvl.dumps(L.pvl.loads(text), encoder=E))
        except ValueError:
            exp = ("ValueError", None)
        except TypeError:         # the encoder's character-set refusal trips over its own message (s[i - 5, i + 5])
            exp = ("TypeError", None)
        real = tool.argparse
        tool.argparse = ArgparseShim()
        try:
            try:
                tool.main(["-of", self.fmt, "in.lbl", "out.lbl"])
                got = "ok"
            except ValueError:
                got = "ValueError"
            except TypeError:
                got = "TypeError"
        finally:
            tool.argparse = real
        if got != "ok" or exp[0] != "ok":
            return Outcome("refused", got == exp[0], {"expected": exp[0], "got": got})
        name, mode, enc, errors, w = opened["out"]
        loc = "utf-8"            # locale.getpreferredencoding(False) of the sandbox; Path.write_text uses the same default
        if errors not in (None, "strict") or "b" in mode:
            return Outcome("written", False, {"outfile_opened_with": [mode, enc, errors]})
        try:
            fb = file_bytes("".join(w.got) if all(isinstance(x, str) for x in w.got) else _cat(w.got), enc or loc)
        except UnicodeEncodeError:
            return Outcome("written", False, {"outfile_opened_with": [mode, enc, errors], "error": "UnicodeEncodeError on write"})
        eb = file_bytes(exp[1], loc)
        from .common import int_eq
        ok = len(fb) == len(eb) and zand([int_eq(a, b) for a, b in zip(fb, eb)])
        return Outcome("written", ok, {"outfile_opened_with": [mode, enc, errors], "text": _cat(w.got)})


def _cat(parts):
    out = ""
    for p in parts:
        out = out + p
    return out


class TranslateJSON(Harness):
    prop = "C20"
    alphabet = "ascii"
    must_reach = ("json",)
    functions = ("pvl.pvl_translate.JSONWriter.dump",)
    bounds = ("JSON output of six concrete labels (nesting, repeated names at the top level and inside blocks, a block "
              "named like a parameter, nested sequences, an empty value): the document, read with repeated keys kept, "
              "is the label's nested list of (name, value) pairs (json is C level: nothing symbolic)")

    def inputs(self, ctx):
        return {}

    TEXTS = (
        "a = 1\nb = (1, 2)\nEND",
        "GROUP = g\n x = \"s\"\n OBJECT = o\n  y = 2.5\n END_OBJECT\nEND_GROUP\nz = NULL\nEND",
        "t = TRUE\nf = FALSE\nEND",
        # names that occur more than once, at the top level and inside blocks; a block name equal to a parameter name
        "Note = \"one\"\nOBJECT = Table\n k = 1\n k = 2\nEND_OBJECT\nNote = \"two\"\nOBJECT = Table\n k = 3\nEND_OBJECT\nTable = 7\nEND",
        "a = (1, (2, 3), \"x y\")\nGROUP = g\n GROUP = g\n  a = -1.5e-05\n END_GROUP\n a = 16#FF#\nEND_GROUP\nEND",
        "e =\nf = 2\nEND",
    )

    @staticmethod
    def pairs(v):
        """the label's nested (name, value) pairs, in order, repeated names kept"""
        if hasattr(v, "items"):
            return ["object"] + [[k, TranslateJSON.pairs(x)] for k, x in v.items()]
        if isinstance(v, list):
            return [TranslateJSON.pairs(x) for x in v]
        return v

    def prop_fn(self, L, inp):
        tool = L.tool("pvl_translate")
        ok = True
        got = []
        for text in self.TEXTS:
            w = WText()
            m = L.pvl.loads(text)
            tool.formats["JSON"].dump(m, w)
            doc = json.loads("".join(w.got), object_pairs_hook=lambda ps: ["object"] + [[k, v] for k, v in ps])
            got.append(doc)
            ok = ok and doc == self.pairs(m)
        return Outcome("json", ok, {"documents": got})


def obligations(tier):
    obs = []
    quick = tier == "quick"
    fams = ["lit:d#dd#", "lit:-d#d#", "lit:dd#-d#", "lit:d.dB", "lit:ddB", "time:dd:dd:dd+dd", "time:dd:dd:dd.dddd", "time:dddd-dd-ddTdd:dd", "gaps:top3", "gaps:group", "gaps:values", "gaps:semi", "quoted:quoted:1", "unq:unquoted:1", "unq:unquoted:2",
            "k:keywords:0", "m:mixed:5", "s:seqUnits:4"]
    if not quick:
        fams += ["gaps:" + t for t in c08.TEMPLATES if t not in ("top3", "group", "values", "semi")] + ["quoted:quoted:2"]
    for d in ORDER:
        for f in fams:
            if f == "unq:unquoted:2" and d in ("ISIS", "Omni"):
                continue      # two free characters can spell 'x=': a symbolic parameter name cannot go into the tool's own PVLModule
            obs.append(Flavor(dialect=d, family=f))
    for d in ORDER:
        obs.append(Faults(dialect=d))
    obs.append(Report(files=1))
    obs.append(Report(files=2))
    obs.append(Report(files=3))
    for fmt in ("PDS3", "ODL", "ISIS", "PVL"):
        for shape in ("single", "group", "grouponly", "wrapseq"):
            for n in ((1,) if quick else (0, 1, 2)):
                obs.append(Translate(fmt=fmt, shape=shape, n=n))
        for n in ((0, 1) if quick else (0, 1, 2)):
            obs.append(TranslateMain(fmt=fmt, n=n))
    obs.append(TranslateJSON())
    return obs


def main(tier="quick", seed=0, jobs=16, only=None, time_scale=1.0):
    obs = obligations(tier)
    if only:
        obs = [o for o in obs if only in o.name]
    return run_property("C20", obs, tier, seed, jobs=jobs, time_scale=time_scale)
