"""C05 - ill-formed text is rejected, never silently truncated.

The real parser is driven through lexer_fn by a symbolic token stream
(stream.py).  An independent recogniser/evaluator for the dialect's statement
grammar over the same vocabulary (stream.Ref, written from the Blue Book / ODL
BNF) decides 'ill-formed' or gives the expected list of statements.  Assertion:
pvl returns a module  =>  the reference accepts everything the parser pulled
up to END / the end of the stream AND the module equals the reference's;
the reference rejects  =>  pvl raises LexerError/ParseError.  The default
loader's only extra tolerance is the missing value (reference extended by
exactly that rule).
"""
from ..core import B, zand, znot, SymStr, ALPHABETS
from .common import Harness, Outcome, dialect, run_property, veq
from . import stream as st
from .c06 import load, FUNCS, ALPHA
from .. import framework

LOADERS = ("PVL", "ODL", "PDS3", "ISIS", "Omni")
REFD = {"PVL": "PVL", "ODL": "ODL", "PDS3": "ODL", "ISIS": "ISIS", "Omni": "Omni"}
PREFIXES = {"": [], "ingroup": ["GROUP", "=", "a"], "afterstmt": ["a", "=", "1", "OBJECT", "=", "b"],
            "nested": ["OBJECT", "=", "a", "GROUP", "=", "b", "b", "=", "1"]}


def same(m, items):
    got = list(m.items())
    if len(got) != len(items):
        return False
    for (k, v), (ek, ev) in zip(got, items):
        if k != ek:
            return False
        if not same_value(v, ev):
            return False
    return True


def same_value(v, ev):
    if ev is st.EMPTY:
        return type(v).__name__ == "EmptyValueAtLine"
    if type(v).__name__ == "EmptyValueAtLine":
        return False
    if isinstance(ev, tuple) and ev and ev[0] in ("group", "object"):
        want = "PVLGroup" if ev[0] == "group" else "PVLObject"
        return type(v).__name__ == want and same(v, ev[1])
    if isinstance(ev, tuple) and ev and ev[0] == "quantity":
        return type(v).__name__ == "Quantity" and same_value(v.value, ev[1]) and v.units == ev[2]
    if isinstance(ev, tuple) and ev and ev[0] == "set":
        if not isinstance(v, (set, frozenset)):
            return False
        # the reference keeps the written elements; a Python set drops duplicates
        return all(any(same_value(x, e) for x in v) for e in ev[1]) and \
            all(any(same_value(x, e) for e in ev[1]) for x in v)
    if isinstance(ev, list):
        return isinstance(v, list) and len(v) == len(ev) and all(same_value(a, b) for a, b in zip(v, ev))
    if isinstance(ev, bool) or isinstance(v, bool):
        return v is ev
    return type(v) is type(ev) and v == ev


def snap(m):
    if hasattr(m, "items"):
        return [type(m).__name__] + [(k, snap(v)) for k, v in m.items()]
    if isinstance(m, (set, frozenset)):
        return sorted(repr(x) for x in m)
    if isinstance(m, list):
        return [snap(x) for x in m]
    return m


def _reread_non_name(dialect, toks):
    """D35: the default loader's empty-value repair re-reads the previous VALUE as the next parameter name
    when an '=' follows it, also when that value was a quoted string or the placeholder of a ';'"""
    return dialect == "Omni" and any(a in ('"q"', ";") and b == "=" for a, b in zip(toks, toks[1:]))


KNOWN = {"D35": _reread_non_name}


def split_of(h):
    """a large obligation is split by its first token(s): 'split' = dot-separated vocabulary indices (EOS = 20)"""
    sp = getattr(h, "split", "")
    return [int(x) for x in sp.split(".")] if sp else []


def splits(depth):
    import itertools
    return [".".join(str(i) for i in t) for t in itertools.product(range(st.EOS + 1), repeat=depth)
            if st.EOS not in t[:-1]] if depth else [""]


class Stream(Harness):
    prop = "C05"
    alphabet = "ascii"
    functions = FUNCS
    must_reach = ("module", "LexerError", "ParseError")
    timeout = 170

    @property
    def bounds(self):
        return ("loader %s, the fixed token prefix %s followed by %severy stream of at most %d tokens over the %d-lexeme "
                "vocabulary (lazy choices), oracle = independent recogniser of the statement grammar" % (
                    self.dialect, PREFIXES[getattr(self, "prefix", "")],
                    ("the token(s) %s (one obligation per choice: together all streams of %d tokens) and " % (
                        [(st.VOCAB + ["<end of text>"])[i] for i in split_of(self)], self.k + len(split_of(self))))
                    if split_of(self) else "", self.k, len(st.VOCAB)))

    def inputs(self, ctx):
        pre = [st.VOCAB.index(t) for t in PREFIXES[getattr(self, "prefix", "")]] + split_of(self)
        return {"stream": st.LazyStream(ctx, self.k, pre)}

    def prop_fn(self, L, inp):
        picked = []
        counter = st.Counter(40 * (self.k + 12))
        lx = st.make_lexer(L, inp["stream"], picked, counter)
        try:
            m = load(L, self.dialect, lexer_fn=lx)
            out = "module"
        except L.exceptions.LexerError:
            out = "LexerError"
        except L.exceptions.ParseError:
            out = "ParseError"
        toks = [t for t in picked if t is not None]
        if not getattr(self, "nofindings", False):
            for fid, pred in KNOWN.items():
                if fid in framework.active_findings("C05") and pred(self.dialect, [t for t in toks if t != st.COMMENT]):
                    return Outcome("known-finding-class:" + fid, True, {"tokens": toks})
        ref = st.reference(toks, REFD[self.dialect])
        if out != "module":
            # rejecting is always allowed by this property (acceptance of well-formed text is C03's subject)
            return Outcome(out, True, {"tokens": toks, "reference": ref[0]})
        if ref[0] == "ill":
            return Outcome("module", False, {"tokens": toks, "reference": ref[1], "module": snap(m)})
        # well-formed: everything pulled must belong to the module (nothing after END is pulled, nothing dropped)
        ok = same(m, ref[1]) and ref[2] == len([t for t in toks if t != st.COMMENT])
        return Outcome("module", ok, {"tokens": toks, "reference": repr(ref[1]), "module": snap(m)})


# --------------------------------------------------------------------------- character level: unterminated constructs
OPEN = {
    # name: (text up to and including the opener, characters the tail must not contain, what is left open)
    "dquote": ('x = 1\na = "', '"', "quoted string"),
    "squote": ("x = 1\na = '", "'", "quoted string"),
    "comment": ("x = 1 /*", "", "comment"),
    "units": ("x = 1\na = 1 <", ">", "units expression"),
    "seq": ("x = 1\na = (1, ", ")", "sequence"),
    "set": ("x = 1\na = {1, ", "}", "set"),
    "seqquote": ('a = (1, "', '"', "quoted string inside a sequence"),
    "groupquote": ('GROUP = g\na = "', '"', "quoted string inside a group"),
    "nestedseq": ("a = ((1, 2), (3 ", ")", "inner sequence"),
    "unitsseq": ("a = (1 <", ">", "units expression inside a sequence"),
}


class Unterminated(Harness):
    """a construct opened by concrete text and followed by EVERY tail of n characters that does not close it:
    the load must raise LexerError/ParseError (returning any module means statements were dropped or altered)"""
    prop = "C05"
    functions = FUNCS
    must_reach = ("LexerError", "ParseError")
    timeout = 170

    @property
    def alphabet(self):
        return ALPHA[self.dialect]

    @property
    def bounds(self):
        pre, forbid, what = OPEN[self.open]
        return ("loader %s, text %r + every tail of %d characters over alphabet '%s' without %s (unterminated %s)" % (
            self.dialect, pre, self.n, ALPHA[self.dialect],
            repr(forbid) if forbid else "the two-character closer '*/' (and not starting with '/')", what))

    def inputs(self, ctx):
        pre, forbid, what = OPEN[self.open]
        rs = []
        for a, b in ALPHABETS[ALPHA[self.dialect]]:
            cuts = sorted(ord(c) for c in forbid if a <= ord(c) <= b)
            lo = a
            for c in cuts:
                if lo <= c - 1:
                    rs.append((lo, c - 1))
                lo = c + 1
            if lo <= b:
                rs.append((lo, b))
        t = ctx.fresh_str(self.n, "t", tuple(rs))
        if self.dialect == "Omni":
            # the default loader first removes 'dash + LF/CR/FF + white space' from the text (documented): a tail with
            # such a pair is a different text after that step (x = 1 /**-<FF>/ becomes the closed comment /**/)
            from ..core import ch_in, chars_to_ranges
            le = chars_to_ranges("\n\r\f")
            for x, y in zip(t.cs, t.cs[1:]):
                ctx.assume(znot(zand([B(SymStr((x,)) == "-"), ch_in(y, le)])))
        if self.open == "comment":
            cs = t.cs
            if cs:
                ctx.assume(znot(B(SymStr((cs[0],)) == "/")))
            for x, y in zip(cs, cs[1:]):
                ctx.assume(znot(zand([B(SymStr((x,)) == "*"), B(SymStr((y,)) == "/")])))
        return {"tail": t}

    def prop_fn(self, L, inp):
        text = OPEN[self.open][0] + inp["tail"]
        try:
            m = load(L, self.dialect, text=text)
        except L.exceptions.LexerError:
            return Outcome("LexerError", True, None)
        except L.exceptions.ParseError:
            return Outcome("ParseError", True, None)
        return Outcome("module", False, {"text": text, "module": snap(m)})


def obligations(tier):
    quick = tier == "quick"
    obs = []
    for d in LOADERS:
        if quick:
            obs.append(Stream(dialect=d, k=5, prefix="", shard_bits=6))
        else:
            # 6 tokens = every choice of the first one + 5 symbolic ones
            obs += [Stream(dialect=d, k=5, prefix="", split=sp, shard_bits=3) for sp in splits(1)]
        for pre in ("ingroup", "afterstmt", "nested"):
            if quick:
                obs.append(Stream(dialect=d, k=4, prefix=pre, shard_bits=5))
            else:
                obs += [Stream(dialect=d, k=4, prefix=pre, split=sp, shard_bits=3) for sp in splits(1)]
        for o in OPEN:
            for n in range(0, (2 if quick else 3) + 1):
                obs.append(Unterminated(dialect=d, open=o, n=n, shard_bits=0 if n < 3 else 4))
    return obs


def main(tier="quick", seed=0, jobs=16, only=None, time_scale=1.0):
    obs = obligations(tier)
    if only:
        obs = [o for o in obs if only in o.name]
    return run_property("C05", obs, tier, seed, jobs=jobs, time_scale=time_scale)
