"""C15 - strict dialects enforce their character set; the default accepts all.

(a) Tables: grammar.char_allowed(c) for ONE symbolic code point over the whole
    range U+0000..U+10FFFF (surrogates excluded) against the spec sets.
(b) Enforcement: a label template with one symbolic character inserted at each
    syntactic position; strict grammars must raise LexerError exactly for the
    characters outside their set when the position is before END, must load
    unchanged for characters that are neutral at that position, and the error's
    pos/lineno/colno must be consistent with each other and with the text.
(c) LexerError's position arithmetic on a symbolic document / position.
"""
from ..core import SymStr, SymInt, B, zand, zor, znot, ziff, zimp, mkbool
from .common import Harness, Outcome, dialect, veq, str_eq, int_eq, run_property

FUNCS = ("pvl.grammar.PVLGrammar.char_allowed", "pvl.grammar.ODLGrammar.char_allowed",
         "pvl.grammar.OmniGrammar.char_allowed", "pvl.lexer.lexer", "pvl.lexer.lex_char", "pvl.lexer.lex_continue",
         "pvl.exceptions.LexerError.__init__", "pvl.exceptions.firstpos", "pvl.exceptions.linecount")


def ordz(c):
    """code point of a one-character string: int, or z3 term for a proxy"""
    if isinstance(c, SymStr):
        e = c.cs[0]
        return ord(e) if isinstance(e, str) else e.z
    return ord(c)


def between(o, a, b):
    return zand([a <= o, o <= b])


def spec_allowed(dia, o):
    """the character sets of the specifications (CCSDS 641.0-B-2 sec. 2.1 / PDS3 SR ch. 12.2)"""
    if dia in ("PVL", "ISIS"):
        return zand([o <= 255, znot(between(o, 0, 8)), znot(between(o, 14, 31)), znot(between(o, 127, 159))])
    if dia in ("ODL", "PDS3"):
        return o <= 127
    return True


def in_chars(o, chars):
    return zor([o == ord(x) for x in chars])


class Table(Harness):
    prop = "C15"
    alphabet = "unicode"
    functions = FUNCS[:3]
    bounds = "one character, every code point U+0000-U+10FFFF except surrogates"
    must_reach = ("table",)

    def inputs(self, ctx):
        return {"c": SymStr((ctx.fresh_char("c"),))}

    def prop_fn(self, L, inp):
        c = inp["c"]
        G = {"PVL": L.grammar.PVLGrammar, "ODL": L.grammar.ODLGrammar, "PDS3": L.grammar.PDSGrammar,
             "ISIS": L.grammar.ISISGrammar, "Omni": L.grammar.OmniGrammar}[self.dialect]()
        r = G.char_allowed(c)
        return Outcome("table", ziff(B(r), spec_allowed(self.dialect, ordz(c))), {"allowed": r})


# position -> (text before the symbolic character, text after it, index where the enclosing lexeme starts)
TEMPLATES = {
    "first": ("", "a = 1\nEND\n"),
    "name": ("a", "b = 1\nEND\n"),
    "unquoted": ("a = x", "y\nEND\n"),
    "quoted": ('a = "x', 'y"\nEND\n'),
    "comment": ("/* x", "y */\na = 1\nEND\n"),
    "units": ("a = 1 <m", "s>\nEND\n"),
    "between": ("a = 1\n", "\nb = 2\nEND\n"),
    "after_lexeme": ("a = 1\nb = 2", "\nEND\n"),
    # around block statements, inside a sequence, after a delimiter
    "after_endgroup": ("GROUP = g\na = 1\nEND_GROUP", "\nb = 2\nEND\n"),
    "after_endgroup_sp": ("GROUP = g\na = 1\nEND_GROUP ", "\nb = 2\nEND\n"),
    "after_endname": ("OBJECT = g\na = 1\nEND_OBJECT = g", "\nb = 2\nEND\n"),
    "after_begin": ("GROUP", " = g\na = 1\nEND_GROUP\nb = 2\nEND\n"),
    "after_blockname": ("GROUP = g", "\na = 1\nEND_GROUP\nb = 2\nEND\n"),
    "in_seq": ("a = (1,", " 2)\nb = 2\nEND\n"),
    "after_delim": ("a = 1;", "b = 2\nEND\n"),
    # directly after a dash continuation inside a quoted string (the default parser class removes those from the text)
    "after_dash": ('a = "x-\n', 'y"\nb = 2\nEND\n'),
    "after_end": ("a = 1\nEND\n", ""),
    "after_end_far": ("a = 1\nEND\nxyz ", " tail"),
}
LEXEME_START = {"first": 0, "name": 0, "unquoted": 4, "quoted": 4, "comment": 0, "units": 6, "between": 6,
                "after_lexeme": 10, "after_end": 0, "after_end_far": 0,
                "after_endgroup": 16, "after_endgroup_sp": 16, "after_endname": 30, "after_begin": 0, "after_blockname": 8,
                "in_seq": 6, "after_delim": 5, "after_dash": 4}
WS = " \t\n\r\v\f"
LISTMODS = ("first", "name", "after_begin", "after_blockname", "after_delim", "after_endname")


class Enforce(Harness):
    prop = "C15"
    alphabet = "omni"
    functions = FUNCS
    bounds = ("one symbolic character over alphabet 'omni' (U+0000-02FF plus selected higher code points) at a "
              "fixed syntactic position of a two-statement label; loader = the dialect's strict parser, or (via=grammar) "
              "pvl.loads(text, grammar=<the dialect's grammar>)")
    must_reach = ("loads", "LexerError")

    def inputs(self, ctx):
        return {"c": SymStr((ctx.fresh_char("c"),))}

    def expected(self, L, c):
        """(must_succeed condition, expected items) by position, spec side"""
        o = ordz(c)
        p = self.pos
        Q = L.collections.Quantity
        ws = in_chars(o, WS)
        alnum = zor([between(o, 48, 57), between(o, 65, 90), between(o, 97, 122)])
        if p == "quoted":
            cond = o != 34
            if self.dialect in ("ODL", "PDS3", "Omni"):
                cond = zand([cond, znot(B(_isspace(c))), znot(ws)])
            return cond, [("a", "x" + c + "y")]
        if p == "after_dash":
            # what the string becomes depends on the dialect's continuation rule: only "rejected or not" is asserted
            return False, []
        if p == "comment":
            return zand([o != 42, o != 47]), [("a", 1)]
        if p == "units":
            return zand([o != 60, o != 62, znot(ws)]), [("a", Q(1, "m" + c + "s"))]
        if p == "name":
            name = "a" + c + "b"
            if self.dialect in ("ODL", "PDS3"):
                pass
            return alnum, [(name, 1)]
        if p == "unquoted":
            return alnum, [("a", "x" + c + "y")]
        if p == "first":
            return ws, [("a", 1)]
        if p == "between":
            return ws, [("a", 1), ("b", 2)]
        if p == "after_lexeme":
            return ws, [("a", 1), ("b", 2)]
        if p in ("after_end", "after_end_far"):
            return True, [("a", 1)]
        col = L.collections
        Gc, Oc = col.PVLGroup, col.PVLObject
        if p in LISTMODS:
            from .common import list_classes
            _, Gc, Oc = list_classes(L)
        if p in ("after_endgroup", "after_endgroup_sp", "after_begin", "after_blockname"):
            return ws, [("g", Gc([("a", 1)])), ("b", 2)]
        if p == "after_endname":
            return ws, [("g", Oc([("a", 1)])), ("b", 2)]
        if p == "in_seq":
            return ws, [("a", [1, 2]), ("b", 2)]
        if p == "after_delim":
            return ws, [("a", 1), ("b", 2)]
        raise KeyError(p)

    def prop_fn(self, L, inp):
        c = inp["c"]
        pre, post = TEMPLATES[self.pos]
        doc = pre + c + post
        i = len(pre)
        dia = dialect(L, self.dialect, listmods=self.pos in LISTMODS)
        o = ordz(c)
        before_end = self.pos not in ("after_end", "after_end_far")
        must_fail = zand([before_end, znot(spec_allowed(self.dialect, o))])
        must_succeed, items = self.expected(L, c)
        must_succeed = zand([must_succeed, znot(must_fail)])
        via = getattr(self, "via", "parser")
        try:
            if via == "grammar":
                # the documented short form: the default parser class with the dialect's grammar
                kw = {}
                if self.pos in LISTMODS:
                    from .common import list_classes
                    M_, G_, O_ = list_classes(L)
                    kw = dict(module_class=M_, group_class=G_, object_class=O_)
                m = L.pvl.loads(doc, grammar=dia["grammar"], **kw)
            else:
                m = L.pvl.loads(doc, parser=dia["parser"])
        except L.exceptions.LexerError as e:
            # consistency of the error's position attributes with the text
            pos = e.pos
            line_of_i = 1 + pre.count("\n")
            cons = zand([
                int_eq(e.lineno, 1 + doc[:pos].count("\n")),
                int_eq(e.colno, pos - doc.rfind("\n", 0, pos)),
                0 <= pos, pos <= len(doc),
            ])
            where = zimp(must_fail, zand([LEXEME_START[self.pos] <= pos, pos <= i + 1, int_eq(e.lineno, line_of_i)]))
            if self.pos == "after_dash":
                # the quoted string spans two lines: the error is reported within the lexeme, on either line
                where = zimp(must_fail, zand([LEXEME_START[self.pos] <= pos, pos <= i + 1]))
            if self.dialect in ("Omni", "ISIS") or (via == "grammar" and self.pos == "after_dash"):
                # OmniParser removes dash continuations from the text before lexing: positions refer to that text
                cons = True
                if self.pos == "after_dash":
                    where = True
            elif via == "grammar":
                # ... which the symbolic character creates when it is a dash before a line end
                cons = zor([o == 45, cons])
                where = zor([o == 45, where])
            return Outcome("LexerError", zand([znot(must_succeed), cons, where]),
                           {"pos": e.pos, "lineno": e.lineno, "colno": e.colno})
        except L.exceptions.ParseError:
            return Outcome("ParseError", zand([znot(must_fail), znot(must_succeed)]), None)
        got = list(m.items())
        if via == "grammar":
            must_succeed = False          # the default parser class repairs and decodes differently: only rejection is asserted
        same = len(got) == len(items) and zand([zand([str_eq(k1, k2), veq(v1, v2)])
                                                 for (k1, v1), (k2, v2) in zip(got, items)])
        return Outcome("loads", zand([znot(must_fail), zimp(must_succeed, same)]), {"items": got})


def _isspace(c):
    if isinstance(c, str):
        return c.isspace()
    return c.isspace()


class ErrPos(Harness):
    """LexerError(msg, doc, pos, lexeme): pos/lineno/colno arithmetic on a symbolic document"""
    prop = "C15"
    alphabet = "ascii"
    functions = FUNCS[6:]
    must_reach = ("err",)

    @property
    def bounds(self):
        return "doc of length %d over {LF, x}, every pos, lexeme length %d" % (self.n, self.k)

    def inputs(self, ctx):
        rng = ((10, 10), (120, 120))
        doc = ctx.fresh_str(self.n, "d", rng)
        lo = self.k - 1
        pos = SymInt(ctx.fresh_int("pos", lo, max(lo, self.n - 1)))
        return {"doc": doc, "pos": pos}

    def prop_fn(self, L, inp):
        doc, pos = inp["doc"], inp["pos"]
        lexeme = "y" * self.k
        e = L.exceptions.LexerError("msg", doc, pos, lexeme)
        p = e.pos                      # = pos - len(lexeme) + 1
        n = len(doc)
        line = 1
        last_nl = -1
        # spec side: 1-based line of position p, column = distance from the last newline before p
        from ..core import I
        import z3
        if isinstance(p, int) and isinstance(doc, str):
            line = 1 + doc[:p].count("\n")
            last_nl = doc.rfind("\n", 0, p)
            ok = (e.lineno == line) and (e.colno == p - last_nl) and (p == pos - self.k + 1)
            return Outcome("err", ok, {"pos": p, "lineno": e.lineno, "colno": e.colno})
        pz = I(p)
        cs = SymStr.of(doc).cs
        nl = [_is_nl(c) for c in cs]
        line_t = z3.Sum([z3.If(zbool_(zand([nl[k], k < pz])), 1, 0) for k in range(n)] + [z3.IntVal(1)])
        last_t = z3.IntVal(-1)
        for k in range(n):
            last_t = z3.If(zbool_(zand([nl[k], k < pz])), z3.IntVal(k), last_t)
        ok = zand([I(e.lineno) == line_t, I(e.colno) == pz - last_t, pz == I(pos) - self.k + 1])
        return Outcome("err", ok, {"pos": p, "lineno": e.lineno, "colno": e.colno})


def _is_nl(c):
    from ..core import ch_eq
    return ch_eq(c, "\n")


def zbool_(x):
    from ..core import zbool
    return zbool(x)


def obligations(tier):
    obs = []
    for d in ("PVL", "ODL", "PDS3", "ISIS", "Omni"):
        obs.append(Table(dialect=d))
    positions = list(TEMPLATES)
    for d in ("PVL", "ODL", "PDS3", "ISIS", "Omni"):
        for p in positions:
            obs.append(Enforce(dialect=d, pos=p))
            if d in ("PVL", "ODL", "PDS3"):
                obs.append(Enforce(dialect=d, pos=p, via="grammar"))
    nmax = 6 if tier == "quick" else 10
    for n in range(0, nmax + 1):
        for k in (0, 1, 2):
            if k <= n + 1:
                obs.append(ErrPos(n=n, k=k))
    return obs


def main(tier="quick", seed=0, jobs=16, only=None, time_scale=1.0):
    obs = obligations(tier)
    if only:
        obs = [o for o in obs if only in o.name]
    return run_property("C15", obs, tier, seed, jobs=jobs, time_scale=time_scale)
