"""Shared machinery of the encoder-side properties (C01, C02, C07, C12, C13):
module shapes with symbolic leaves, encoder configurations, and the spec-side
normaliser / comparator implementing exactly the documented normalisations.
"""
import datetime as _dt
import re

from ..core import SymStr, SymInt, B, I, zand, zor, znot, ziff, zimp, Ctx, Unsupported, ALPHABETS
from .common import (Harness, Outcome, dialect, veq, str_eq, int_eq, kind, is_strlike, temporal_eq,
                     tz_offset_minutes, list_classes)
from .c17 import fold_sym

try:
    import z3
    from .. import cmodels as cm
except Exception:        # pragma: no cover
    z3 = cm = None

ALPHA = {"PVL": "latin", "ISIS": "latin", "ODL": "ascii", "PDS3": "ascii"}


# --------------------------------------------------------------------------- leaves
def leaf_inputs(ctx, leaf, n, dia):
    """symbolic leaf of the given kind -> JSON-able input value (proxies inside)"""
    if leaf == "str":
        return ctx.fresh_str(n, "s")
    if leaf == "int":
        return SymInt(ctx.fresh_int("i", -10 ** n, 10 ** n))
    if leaf == "float":
        # text in the language of repr(float) for finite values with at most 15 significant digits,
        # positional notation: -?(0|[1-9]d*).(d*[1-9]|0)
        a, b = (n + 1) // 2, max(1, n // 2)
        ip = [ctx.fresh_char("fi%d" % i, ((48, 57),)) for i in range(a)]
        fp = [ctx.fresh_char("ff%d" % i, ((48, 57),)) for i in range(b)]
        if a > 1:
            ctx.assume(ip[0].z != 48)
        if b > 1:
            ctx.assume(fp[-1].z != 48)
        neg = ctx.decide(ctx.fresh_bool("fneg"))
        return {"$symfloat": SymStr((["-"] if neg else []) + ip + ["."] + fp)}
    if leaf.startswith("fexp:"):
        # a float given by text of a fixed shape with symbolic digits (d) and signs (s), e.g. sd.dEs1d: magnitudes on
        # both sides of the boundaries where repr() switches to exponent notation
        return {"$symfloat": SymStr([ctx.fresh_char("d%d" % i, ((48, 57),)) if ch == "d" else
                                     (ctx.fresh_char("s%d" % i, ((43, 43), (45, 45))) if ch == "s" else ch)
                                     for i, ch in enumerate(leaf[5:])])}
    if leaf.startswith("kw:"):
        # a string spelling a keyword of some dialect, every letter in either case
        return SymStr([ctx.fresh_char("k%d" % i, ((ord(ch.upper()), ord(ch.upper())), (ord(ch.lower()), ord(ch.lower()))))
                       if ch.isalpha() else ch for i, ch in enumerate(leaf[3:])])
    if leaf.startswith("shape:"):
        # a string leaf of a fixed shape: d = any ASCII digit, other characters literal
        return SymStr([ctx.fresh_char("d%d" % i, ((48, 57),)) if ch == "d" else ch for i, ch in enumerate(leaf[6:])])
    if leaf.startswith("t:"):
        # temporal leaf "t:<kind>:<zone>:<precision>" with all fields symbolic (see c14.Encode)
        from . import c14
        _, k, tz, us = leaf.split(":")
        return {"$temporal": [k, tz, us, c14.Encode(dialect=dia, k=k, tz=tz, us=us).inputs(ctx)]}
    raise KeyError(leaf)


def leaf_value(L, v):
    """input value -> the Python value put into the module"""
    if isinstance(v, dict) and "$temporal" in v:
        from . import c14
        k, tz, us, fields = v["$temporal"]
        return c14.Encode(dialect="PVL", k=k, tz=tz, us=us).value(L, dict(fields), True)
    if isinstance(v, dict) and "$symfloat" in v:
        t = v["$symfloat"]
        if isinstance(t, str):
            return float(t)
        return cm.SymFloat(t)
    return v


# --------------------------------------------------------------------------- shapes
class C:
    """container constructors for a library namespace"""

    def __init__(self, L, listmods=False):
        col = L.collections
        if listmods:
            self.M, self.G, self.O = list_classes(L)
        else:
            self.M, self.G, self.O = col.PVLModule, col.PVLGroup, col.PVLObject
        self.Q = col.Quantity
        self.sym = L.pkg == "pvl" and Ctx.cur is not None

    def fset(self, items):
        items = list(items)
        if cm is not None and any(cm._is_sym(x) for x in items):
            return cm.SymSet(items, True)
        return frozenset(items)


LONG = "lorem ipsum dolor sit amet"
LONG_APOS = "lorem ip'sum dolor - sit amet"
LONG_DQ = 'lorem ip"sum dolor - sit amet' 

SHAPES = {
    "single": lambda c, x: c.M([("a", x)]),
    "two": lambda c, x: c.M([("a", x), ("bb", 5)]),
    "dup": lambda c, x: c.M([("a", x), ("a", 1), ("b", x)]),
    "consts": lambda c, x: c.M([("n", None), ("t", True), ("f", False), ("a", x)]),
    "group": lambda c, x: c.M([("g", c.G([("a", x), ("b", 2)])), ("o", c.O([("c", 3)]))]),
    "grouponly": lambda c, x: c.M([("k", 0), ("g", c.G([("a", x)])), ("k", 1)]),
    "badgroup": lambda c, x: c.M([("g", c.G([("a", 1)])), ("h", c.G([("a", x), ("a", 2)])), ("g", c.G([("b", 2)]))]),
    "dupgroup": lambda c, x: c.M([("g", c.G([("a", x)])), ("k", 1), ("g", c.G([("b", 2), ("b", 3)])), ("k", x)]),
    "nested": lambda c, x: c.M([("o", c.O([("p", c.O([("a", x)])), ("q", c.G([("b", x)]))]))]),
    # groups that are not valid PDS3 groups below the top level (repeated keyword, keys differing in case, a block inside)
    "nestedbad": lambda c, x: c.M([("o", c.O([("h", c.G([("a", x), ("a", 2)])), ("i", c.G([("b", 1), ("B", 2)])),
                                             ("j", c.G([("k", c.G([("c", x)]))]))]))]),
    # block names that contain the keywords the dialects write (Group1, SUBGROUP, OBJECTS, ...)
    "kwnames": lambda c, x: c.M([("Group1", c.G([("a", x)])), ("SUBGROUP", c.G([("b", 1)])), ("OBJECTS", c.O([
        ("c", 2), ("MyObject", c.O([("d", x)])), ("End_Group2", c.G([("e", 3)]))])), ("BEGIN_GROUPS", c.G([("f", 4)])),
        ("OBJECT_2", c.O([("g", 5)]))]),
    "seq": lambda c, x: c.M([("a", [x, "x y", 7])]),
    "seq2": lambda c, x: c.M([("a", [[x], [1, 2]])]),
    "set": lambda c, x: c.M([("a", c.fset([x]))]),
    "wrapseq": lambda c, x: c.M([("k", [LONG, x, LONG, LONG])]),
    "wrapquote": lambda c, x: c.M([("k", [LONG_APOS, x, LONG_DQ, LONG, LONG_APOS]), ("j", c.fset([LONG_DQ, LONG_APOS, "x y"]))]),
    "wrapstr": lambda c, x: c.M([("g", c.G([("key", x), ("z", LONG + " " + LONG + " " + LONG + " " + LONG)])),
                                 ("o", c.O([("c", 3)]))]),
    "wrapunits": lambda c, x: c.M([("k", [c.Q(x, "kg m / s"), c.Q(2, "m / s / s"), c.Q(3, "kg m / s"), c.Q(4, "m / s / s"),
                                          c.Q(5, "kg m / s"), c.Q(6, "m / s / s"), c.Q(7, "kg m / s")])]),
    # elements that are == and hash-equal in Python but of different types (1, 1.0, True / 0, 0.0, False)
    "hasheq": lambda c, x: c.M([("a", x), ("s", [1, 1.0, 0.0, 0, c.Q(1, "m"), c.Q(1.0, "m"), 1.0, 1])]),
    "hasheqb": lambda c, x: c.M([("s", [True, 1, 0, False, 1.0, True]), ("a", x), ("t", [False, 0])]),
    # quantities whose units ODL's rule for units expressions rejects (negative exponent, leading digit, '%', empty)
    "quantbad": lambda c, x: c.M([("a", c.Q(x, "m s**-2")), ("b", [c.Q(2, "1/s"), c.Q(x, "%")]), ("c", c.Q(3.5, ""))]),
    "quant": lambda c, x: c.M([("a", c.Q(x, "m")), ("b", [c.Q(x, "km/s**2")])]),
}


# shapes too large to run in every configuration: used where named
BIG_SHAPES = {
    # more blocks than any small fixed limit: an object and 120 sibling groups, the leaf in the last one
    "manyblocks": lambda c, x: c.M([("o", c.O([("k", 1)]))] + [("g%d" % i, c.G([("a", i)])) for i in range(119)] +
                                   [("last", c.G([("a", x)])), ("z", 0)]),
    # ... and 110 levels of nesting
    "deepblocks": lambda c, x: c.M([("top", _nest(c, 110, x)), ("z", 0)]),
}


def _nest(c, depth, x):
    inner = c.G([("a", x)])
    for i in range(depth):
        inner = (c.O if i % 2 else c.G)([("n%d" % i, inner), ("b", i)])
    return inner


def shape_module(L, shape, x, listmods=False):
    return (SHAPES.get(shape) or BIG_SHAPES[shape])(C(L, listmods), x)


# --------------------------------------------------------------------------- spec-side normaliser
def norm_key(dia, k):
    return k.upper() if dia in ("ODL", "PDS3") else k


def is_pds_group(g):
    """PDS3 SR 12.5.2 as the encoder documents it: no nested blocks, no data location pointers
    (^NAME = integer), no repeated keywords"""
    keys = []
    for k, v in g:
        if hasattr(v, "items"):
            return False
        if isinstance(k, str) and k.startswith("^") and isinstance(v, int) and not isinstance(v, bool):
            return False
        if hasattr(v, "_fields") and isinstance(k, str) and k.startswith("^") and isinstance(getattr(v, "value", None), int):
            return False
        keys.append(k.upper() if isinstance(k, str) else k)      # PDS3 keywords are written in upper case
    return len(keys) == len(set(keys))


def tree(L, m, dia, top=True, convert=True, reader="strict"):
    """expected result of a strict load of the dump of m: ('module'|'group'|'object', [(key, value|tree)...])
    with the documented normalisations applied"""
    col = L.collections
    items = list(m.items())

    def cls_of(v):
        if type(v).__name__ in ("PVLGroup", "ListGroup", "PVLGroupNew"):
            return "group"
        return "object"
    kinds = [cls_of(v) if hasattr(v, "items") else None for _, v in items]
    if dia == "PDS3" and convert:
        if top and "group" in kinds and "object" not in kinds:
            # the documented rule: first a GROUP that is not a valid PDS GROUP, else the first GROUP
            idx = None
            for i, (k, v) in enumerate(items):
                if kinds[i] == "group" and not is_pds_group(list(v.items())):
                    idx = i
                    break
            if idx is None:
                idx = kinds.index("group")
            kinds[idx] = "object"
        for i, (k, v) in enumerate(items):
            if kinds[i] == "group" and not is_pds_group(list(v.items())):
                kinds[i] = "object"
    out = []
    for (k, v), kd in zip(items, kinds):
        if kd is not None:
            # block names are written as they are; only parameter names are upper-cased by ODL/PDS3
            out.append((k, (kd, tree(L, v, dia, top=False, convert=convert, reader=reader)[1])))
        else:
            out.append((norm_key(dia, k), norm_value(L, v, dia, reader)))
    return ("module" if top else "block", out)


def norm_value(L, v, dia, reader="strict"):
    k = kind(v)
    if k == "str":
        if reader == "omni":
            # OmniParser.parse documents: a dash followed by a line end (LF, CR, FF) and all white
            # space (the grammar's six characters, since fix D57) that begins the next line is removed from the whole text
            v = omni_dash(v)
        return fold_sym(L, v) if (dia in ("ODL", "PDS3") or reader == "omni") else v
    if k == "list":
        return [norm_value(L, x, dia, reader) for x in v]
    if k == "set":
        return ("set", [norm_value(L, x, dia, reader) for x in v])
    if k == "quantity":
        return ("quantity", norm_value(L, v.value, dia, reader), v.units)
    if k in ("time", "datetime"):
        if tz_offset_minutes(v) is None and (dia in ("PVL", "ISIS", "PDS3") or reader == "omni"):
            return v.replace(tzinfo=_dt.timezone.utc)
        return v
    return v


def omni_dash(s):
    if isinstance(s, str):
        return re.sub(r"-[\n\r\f][ \t\n\r\v\f]*", "", s)
    from ..rx import sym_compile
    return sym_compile(r"-[\n\r\f][ \t\n\r\v\f]*").sub("", s)


def match(got, exp):
    """parsed value against expected (normalised) value -> bool or z3 Bool"""
    if isinstance(exp, tuple) and exp and exp[0] == "set":
        if kind(got) != "set":
            return False
        gl = list(got)
        if len(gl) != len(exp[1]):
            return False
        return zand([zor([match(g, e) for g in gl]) for e in exp[1]])
    if isinstance(exp, tuple) and exp and exp[0] == "quantity":
        if kind(got) != "quantity":
            return False
        return zand([match(got.value, exp[1]), str_eq(got.units, exp[2])])
    if isinstance(exp, tuple) and exp and exp[0] in ("group", "object", "module", "block"):
        if not hasattr(got, "items"):
            return False
        name = type(got).__name__
        want = {"group": ("PVLGroup", "ListGroup"), "object": ("PVLObject", "ListObject"),
                "module": ("PVLModule", "ListModule")}.get(exp[0])
        if want and name not in want:
            return False
        gi = list(got.items())
        if len(gi) != len(exp[1]):
            return False
        return zand([zand([str_eq(k1, k2), match(v1, v2)]) for (k1, v1), (k2, v2) in zip(gi, exp[1])])
    if isinstance(exp, list):
        if kind(got) != "list" or len(got) != len(exp):
            return False
        return zand([match(g, e) for g, e in zip(got, exp)])
    return veq(got, exp)


def snapshot(m):
    """structural snapshot of a module: classes, keys, values, order at every level"""
    if hasattr(m, "items"):
        return (type(m).__name__, [(k, snapshot(v)) for k, v in m.items()])
    if isinstance(m, list):
        return [snapshot(x) for x in m]
    return m


# --------------------------------------------------------------------------- encoder configurations
CONFIGS = {
    "default": {},
    "narrow": {"width": 40},
    "wide": {"width": 120, "indent": 4},
    "noindent": {"indent": 0},
    "noaggend": {"aggregation_end": False},
    "symwidth": {"width": "sym"},
    "symtiny": {"width": "symtiny"},      # widths 1..14: every statement is longer than the line
}
PVL_ONLY = {"nodelim": {"end_delimiter": False}, "crlf": {"newline": "\r\n"}, "delim": {"end_delimiter": True}}
PDS_ONLY = {"noconvert": {"convert_group_to_object": False}, "notab": {"tab_replace": 0},
            "dquote": {"symbol_single_quote": False}, "noz": {"time_trailing_z": False}}


def config(dia, name):
    if name in CONFIGS:
        return dict(CONFIGS[name])
    if name in PVL_ONLY and dia in ("PVL", "ISIS", "ODL"):
        return dict(PVL_ONLY[name])
    if name in PDS_ONLY and dia == "PDS3":
        return dict(PDS_ONLY[name])
    return None


WIDTHS = {"sym": (30, 100), "symtiny": (1, 14)}


def width_input(ctx, dia, cfgname, inp):
    """adds the solver-chosen line width of a configuration with a symbolic width to the inputs"""
    w = (config(dia, cfgname) or {}).get("width")
    if w in WIDTHS:
        inp["width"] = SymInt(ctx.fresh_int("width", *WIDTHS[w]))
    return inp


def make_encoder(L, dia, cfgname, inp, listmods=False):
    d = dialect(L, dia)
    cfg = config(dia, cfgname) or {}
    if cfg.get("width") in WIDTHS:
        cfg["width"] = inp["width"]
    if listmods:
        M, G, O = list_classes(L)
        cfg.update(group_class=G, object_class=O)
    return d, d["encoder"](**cfg), cfg
