"""C09 - file, stream and string entry points agree; nothing after END matters.

What symbolic execution can reach (DESIGN.md section 5, C09):
 (a) EndTail   loads(label + END + sep + tail) with a symbolic separator and 1-4
               UNCONSTRAINED symbolic tail characters, through a counting proxy
               around the real lexer passed as lexer_fn: the module equals the
               one of the bare label, the last token the parser pulls is END,
               and - for the strict parsers - a non-interference query per path
               shows that no decision depended on the tail at all (which, since
               the lexer reads left to right and is not resumed after END,
               carries over to every longer tail).  The default loader's
               whole-document dash substitution legitimately reads the tail, so
               there only equality and the pull count are asserted.
 (b) Streams   decode_by_char / get_text_from / load on stub streams whose
               read(1) returns symbolic bytes: exactly the longest all-ASCII
               prefix is returned; text-mode, binary-mode and failing text-mode
               streams give the same module as the str entry point.
 (c) Dump      dump to a stub text / binary stream writes exactly dumps(...)
               (its UTF-8 encoding) and returns what write returns.
Real paths, PathLike, file: URLs and OS buffering cross the C/OS boundary and
have no encoding: outside, left to tests/test_init.py.
"""
import io

from ..core import SymStr, SymInt, SymBytes, B, zand, znot, Ctx, independent_of, Unsupported
from .common import Harness, Outcome, dialect, run_property, str_eq, veq
from . import rt
from .c04 import same as same_module, snap

LABELS = {
    "flat": "a = 1\nb = (1, 2)\n",
    "block": "GROUP = g\n x = \"s\"\nEND_GROUP\nc = 3 <m>\n",
}


class TokenProxy:
    """counts what the parser asks of the real lexer generator"""

    def __init__(self, gen, events):
        self.gen, self.events = gen, events

    def __iter__(self):
        return self

    def __next__(self):
        t = next(self.gen)
        self.events.append(("next", t))
        return t

    def send(self, v):
        self.events.append(("send", v))
        return self.gen.send(v)

    def throw(self, *a):
        self.events.append(("throw", None))
        return self.gen.throw(*a)

    def close(self):
        return self.gen.close()


class EndTail(Harness):
    prop = "C09"
    must_reach = ("loaded",)
    functions = ("pvl.lexer.lexer", "pvl.parser.PVLParser.parse_end_statement", "pvl.parser.PVLParser.parse_module",
                 "pvl.parser.OmniParser.parse", "pvl.loads")

    @property
    def alphabet(self):
        return "unicode" if self.dialect != "Omni" else "omni"

    @property
    def bounds(self):
        return ("loader %s, label %s + END + a symbolic separator (%s) + %d unconstrained symbolic "
                "characters over the whole alphabet" % (self.dialect, self.label, "white space or ';'" if getattr(
                    self, "sep", "ws") == "ws" else "NUL / any character outside the dialect's character set", self.n))

    def inputs(self, ctx):
        if getattr(self, "sep", "ws") == "forbidden":
            # END directly followed by a character that cannot belong to any lexeme: NUL padding, or (strict
            # grammars) any character outside the dialect's character set - the first byte of attached data
            c = ctx.fresh_char("sep")
            if self.dialect == "Omni":
                ctx.assume(c.z == 0)
            else:
                from .c15 import spec_allowed
                ctx.assume(znot(spec_allowed(self.dialect, c.z)))
            sep = SymStr([c])
        else:
            sep = SymStr([ctx.fresh_char("sep", ((9, 13), (32, 32), (59, 59)))])
        return {"sep": sep, "tail": ctx.fresh_str(self.n, "t")}

    def prop_fn(self, L, inp):
        base = LABELS[self.label] + "END"
        text = base + inp["sep"] + inp["tail"]
        events = []

        def lx(s, g=None, d=None):
            return TokenProxy(L.lexer.lexer(s, g=g, d=d), events)
        if self.dialect == "Omni":
            P = L.parser.OmniParser(lexer_fn=lx)
            P0 = L.parser.OmniParser()
        else:
            d = dialect(L, self.dialect)
            P = type(d["parser"])(grammar=d["grammar"], decoder=d["decoder"], lexer_fn=lx)
            P0 = d["parser"]
        expect = P0.parse(base)
        try:
            m = P.parse(text)
        except (L.exceptions.LexerError, L.exceptions.ParseError) as e:
            return Outcome("raised", False, {"text": text, "exception": type(e).__name__})
        last = events[-1] if events else None
        pulled_end_last = last is not None and last[0] == "next" and bool(last[1] == "END")
        conds = [same_module(m, expect), pulled_end_last]
        if self.dialect != "Omni" and Ctx.cur is not None and isinstance(inp["tail"], SymStr):
            conds.append(independent_of(Ctx.cur, list(inp["tail"].cs)))
        return Outcome("loaded", zand(conds), {"text": text, "module": snap(m), "tokens_pulled": len(events)})


# ---------------------------------------------------------------------------------------------
class SymByte:
    """one byte read from a binary stream, value symbolic"""

    def __init__(self, v):
        self.v = v          # SymInt in [0, 255]

    def __eq__(self, o):
        return False if isinstance(o, (bytes, str)) and len(o) == 0 else NotImplemented

    def __hash__(self):
        return 0

    def decode(self, *a):
        from .. import cmodels
        if bool(self.v < 128):
            return cmodels.sym_chr(self.v)
        raise UnicodeDecodeError("utf-8", b"\x80", 0, 1, "invalid start byte [symbolic]")


class BinStream:
    def __init__(self, data):
        self.data, self.pos = data, 0     # data: list of ints / SymInts

    def readable(self):
        return True

    def tell(self):
        return self.pos

    def seek(self, p):
        self.pos = p

    def read(self, n=-1):
        if n == 1:
            if self.pos >= len(self.data):
                return b""
            b = self.data[self.pos]
            self.pos += 1
            return bytes([b]) if isinstance(b, int) else SymByte(b)
        rest = self.data[self.pos:]
        self.pos = len(self.data)
        if all(isinstance(b, int) for b in rest):
            return bytes(rest)
        return SymBytesList(rest)


class SymBytesList(bytes):
    """a bytes object some of whose bytes are symbolic (what read() of a binary stream returns, or what a caller
    hands to loads): isinstance(x, bytes) holds; decode() is strict UTF-8 over the byte domain of this harness
    (0-127 and the bytes 248-255 that no UTF-8 sequence contains)"""

    def __new__(cls, data):
        self = bytes.__new__(cls, b"?")
        self.data = data
        return self

    def decode(self, encoding="utf-8", errors="strict"):
        from .. import cmodels
        out = ""
        for i, b in enumerate(self.data):
            if not bool(b < 128):
                # the bytes 248-255 are never part of a UTF-8 sequence: each is an error of its own
                if errors == "ignore":
                    continue
                if errors == "replace":
                    out = out + "\ufffd"
                    continue
                raise UnicodeDecodeError("utf-8", b"\xff", 0, 1, "invalid start byte [symbolic, position %d]" % i)
            out = out + (chr(b) if isinstance(b, int) else cmodels.sym_chr(b))
        return out


class IOShim:
    """io as the instrumented pvl sees it: BytesIO over a bytes object with symbolic content is the stub stream"""

    def __getattr__(self, n):
        return getattr(io, n)

    @staticmethod
    def BytesIO(initial=b""):
        if isinstance(initial, SymBytesList):
            return BinStream(list(initial.data))
        return io.BytesIO(initial)


class TextStream:
    """io.TextIOWrapper (UTF-8, strict) over a binary stream, as documented and as CPython implements it: the
    bytes are decoded a CHUNK at a time (8192 bytes in CPython - more than any stream of this harness - unless an
    obligation sets a small chunk to get several of them), so read(1) already raises UnicodeDecodeError when an
    undecodable byte lies anywhere in the chunk being decoded; the underlying binary stream is available as
    .buffer: it stands at the END of the last chunk read (read-ahead), tell() is the logical position, seek()
    repositions both"""
    CHUNK = 8192

    def __init__(self, data, fail, chunk=None):
        self.data, self.pos, self.fail = data, 0, fail
        self.upto = 0                     # bytes [0, upto) have been taken from the buffer and decoded
        if chunk:
            self.CHUNK = chunk
        self.buffer = BinStream(data)

    def readable(self):
        return True

    def tell(self):
        return self.pos

    def seek(self, p):
        self.pos = p
        self.upto = p
        self.buffer.pos = p

    def _fill(self):
        nxt = min(len(self.data), self.upto + self.CHUNK)
        self.buffer.pos = nxt
        for b in self.data[self.upto:nxt]:
            if not bool(b < 128):
                raise UnicodeDecodeError("utf-8", b"\xff", 0, 1, "invalid start byte")
        self.upto = nxt

    def read(self, n=-1):
        from .. import cmodels
        if n == 1:
            if self.pos >= len(self.data):
                return ""
            if self.pos >= self.upto:
                self._fill()
            b = self.data[self.pos]
            self.pos += 1
            return chr(b) if isinstance(b, int) else cmodels.sym_chr(b)
        rest = self.data[self.pos:]
        self.buffer.pos = len(self.data)
        for b in self.data[self.upto:]:
            if not bool(b < 128):
                raise UnicodeDecodeError("utf-8", b"\x80", 0, 1, "invalid start byte")
        self.pos = self.upto = len(self.data)
        out = ""
        for b in rest:
            out = out + (chr(b) if isinstance(b, int) else cmodels.sym_chr(b))
        return out


class Streams(Harness):
    prop = "C09"
    alphabet = "ascii"
    must_reach = ("agree",)
    functions = ("pvl.decode_by_char", "pvl.get_text_from", "pvl.load", "pvl.loads")

    @property
    def bounds(self):
        return "entry %s, label %s%s followed by %d symbolic bytes (0-255)%s" % (
            self.entry, self.label, " whose END has no line end after it" if getattr(self, "fused", False) else "",
            self.n, (", stream positioned after a header of %d symbolic bytes" % self.offset)
            if getattr(self, "offset", 0) else "") + (
                " which the caller has read through the text layer (chunks of 4 bytes: the buffer has read ahead)"
                if getattr(self, "readhdr", False) else "")

    def inputs(self, ctx):
        tail = [SymInt(ctx.fresh_int("b%d" % i, 0, 255)) for i in range(self.n)]
        if self.entry in ("get_text_text", "load_text", "loads_bytes"):
            # UTF-8 decoding of the whole is involved: keep to bytes whose validity does not depend on their
            # neighbours (ASCII, and 248-255 which no UTF-8 sequence contains)
            import z3
            for b in tail:
                ctx.assume(z3.Or(b.z < 128, b.z >= 248))
        inp = {"tail": tail}
        if getattr(self, "offset", 0):
            inp["header"] = [SymInt(ctx.fresh_int("h%d" % i, 0, 255)) for i in range(self.offset)]
            if getattr(self, "readhdr", False):
                for b in inp["header"]:
                    ctx.assume(b.z < 128)
        return inp

    def prop_fn(self, L, inp):
        tail = list(inp["tail"])
        fused = getattr(self, "fused", False)
        label = LABELS[self.label] + ("END" if fused else "END\n")
        data = [ord(c) for c in label] + tail
        if L.pkg == "pvl" and Ctx.cur is not None and getattr(L.pvl, "io", None) is io:
            L.pvl.io = IOShim()
        # spec: the text is the longest prefix of bytes below 128 (one byte at a time can only decode ASCII)
        k = 0
        while k < len(tail) and bool(tail[k] < 128):
            k += 1
        from .. import cmodels
        exp_text = label
        for b in tail[:k]:
            exp_text = exp_text + (chr(b) if isinstance(b, int) else cmodels.sym_chr(b))
        off = getattr(self, "offset", 0)
        if off:
            # the caller has already read (or skipped) a header of *off* arbitrary bytes: the stream stands at the label
            header = list(inp["header"])
            if getattr(self, "readhdr", False):
                try:
                    probe = TextStream(header + data, False, chunk=4)
                    for _ in range(off):
                        probe.read(1)
                except UnicodeDecodeError:
                    return Outcome("agree", True, {"note": "the caller's own read of the header fails"})

            def positioned(stream_cls, *a):
                if getattr(self, "readhdr", False) and stream_cls is TextStream:
                    # the caller READ the header through the text layer, which decodes small chunks here: the
                    # buffer underneath has run ahead of the logical position
                    st = stream_cls(header + data, *a, chunk=4)
                    for _ in range(off):
                        st.read(1)
                    return st
                st = stream_cls(header + data, *a)
                st.seek(off)
                return st
            if self.entry == "get_text_binary":
                got = L.pvl.get_text_from(positioned(BinStream))
                return Outcome("agree", str_eq(got, exp_text), {"text": got})
            if self.entry == "get_text_text":
                got = L.pvl.get_text_from(positioned(TextStream, False))
                return Outcome("agree", str_eq(got, exp_text), {"text": got})
            expect = L.pvl.loads(label)
            m = L.pvl.load(positioned(BinStream) if self.entry == "load_binary" else positioned(TextStream, False))
            return Outcome("agree", same_module(m, expect), {"module": snap(m)})
        if self.entry == "decode_by_char":
            got = L.pvl.decode_by_char(BinStream(data))
            return Outcome("agree", str_eq(got, exp_text), {"text": got})
        if self.entry == "get_text_binary":
            got = L.pvl.get_text_from(BinStream(data))
            return Outcome("agree", str_eq(got, exp_text), {"text": got})
        if self.entry == "get_text_text":
            got = L.pvl.get_text_from(TextStream(data, False))
            return Outcome("agree", str_eq(got, exp_text), {"text": got})
        if fused:
            # the bytes directly after END may continue the word: what every entry point must make of the data is
            # what loads makes of the decodable prefix (a module, or LexerError/ParseError)
            def outcome(fn):
                try:
                    return fn()
                except (L.exceptions.LexerError, L.exceptions.ParseError) as e:
                    return type(e).__name__
            # ... which may spell a parameter name: containers that keep only the item list
            from .common import list_classes
            M, G, O = list_classes(L)
            kw = dict(module_class=M, group_class=G, object_class=O)
            expect = outcome(lambda: L.pvl.loads(exp_text, **kw))
            if self.entry == "loads_bytes":
                arg = SymBytesList(data) if any(not isinstance(b, int) for b in data) else bytes(data)
                call = lambda: L.pvl.loads(arg, **kw)
            else:
                call = lambda: L.pvl.load(BinStream(data) if self.entry == "load_binary" else TextStream(data, False), **kw)
            try:
                m = outcome(call)
            except UnicodeDecodeError as e:
                return Outcome("raised", False, {"exception": "UnicodeDecodeError"})
            if isinstance(expect, str) or isinstance(m, str):
                return Outcome("agree", B(isinstance(expect, str) and isinstance(m, str) and expect == m),
                               {"expected": expect if isinstance(expect, str) else snap(expect),
                                "got": m if isinstance(m, str) else snap(m)})
            return Outcome("agree", same_module(m, expect), {"module": snap(m), "expected": snap(expect)})
        expect = L.pvl.loads(label)
        if self.entry == "loads_bytes":
            arg = SymBytesList(data) if any(not isinstance(b, int) for b in data) else bytes(data)
            try:
                m = L.pvl.loads(arg)
            except UnicodeDecodeError as e:
                return Outcome("raised", False, {"exception": "UnicodeDecodeError"})
            return Outcome("agree", same_module(m, expect), {"module": snap(m)})
        stream = BinStream(data) if self.entry == "load_binary" else TextStream(data, False)
        m = L.pvl.load(stream)
        return Outcome("agree", same_module(m, expect), {"module": snap(m)})


class WText(io.TextIOBase):
    def __init__(self):
        self.got = []

    def write(self, s):
        self.got.append(s)
        return 4242


class WBin:
    def __init__(self):
        self.got = []

    def write(self, b):
        self.got.append(b)
        return 2424


class WTextFile(io.TextIOBase):
    """a text stream over a binary buffer, as open(path, 'w') / sys.stdout are: write() keeps the text in the text
    layer until flush(), returns the number of CHARACTERS, and the bytes end up in .buffer"""
    encoding, errors = "utf-8", "strict"

    def __init__(self):
        self.buffer = WBin()
        self.pending = []

    def write(self, s):
        self.pending.append(s)
        return len(s)

    def flush(self):
        for s in self.pending:
            self.buffer.write(s.encode(self.encoding))
        self.pending = []


class Dump(Harness):
    prop = "C09"
    must_reach = ("written", "refused")
    functions = ("pvl.dump", "pvl.dumps")

    @property
    def alphabet(self):
        return rt.ALPHA[self.dialect]

    @property
    def bounds(self):
        return "dump of shape %s with a string leaf of length %d to a %s stream, encoder %s" % (
            self.shape, self.n, self.mode, self.dialect)

    def inputs(self, ctx):
        return {"x": rt.leaf_inputs(ctx, "str", self.n, self.dialect)}

    def prop_fn(self, L, inp):
        m = rt.shape_module(L, self.shape, inp["x"])
        d = dialect(L, self.dialect)
        try:
            text = L.pvl.dumps(rt.shape_module(L, self.shape, inp["x"]), encoder=d["encoder"]())
        except (ValueError, TypeError):
            return Outcome("refused", True, None)
        if self.mode == "textfile":
            # earlier output of the caller is still in the text layer when dump() is called
            w = WTextFile()
            w.write("HEADER\n")
            r = L.pvl.dump(m, w, encoder=d["encoder"]())
            w.flush()
            got = w.buffer.got
            if len(got) != 2 or got[0] != b"HEADER\n":
                return Outcome("written", False, {"writes_to_buffer": len(got),
                                                  "header_first": bool(got) and isinstance(got[0], bytes) and got[0] == b"HEADER\n"})
            body = got[1]
            if isinstance(body, SymBytes):
                ok = zand([body.encoding == "utf-8", str_eq(body.s, text), r == len(text)])
            else:
                ok = isinstance(body, bytes) and isinstance(text, str) and body == text.encode() and r == len(text)
            return Outcome("written", ok, {"text": text, "returned": r})
        w = WText() if self.mode == "text" else WBin()
        r = L.pvl.dump(m, w, encoder=d["encoder"]())
        if len(w.got) != 1:
            return Outcome("written", False, {"writes": len(w.got)})
        got = w.got[0]
        if self.mode == "text":
            ok = zand([str_eq(got, text), r == 4242])
        else:
            if isinstance(got, SymBytes):
                ok = zand([got.encoding == "utf-8", str_eq(got.s, text), r == 2424])
            else:
                ok = isinstance(got, bytes) and isinstance(text, str) and got == text.encode() and r == 2424
        return Outcome("written", ok, {"text": text})


def obligations(tier):
    obs = []
    quick = tier == "quick"
    for d in ("PVL", "ODL", "PDS3", "ISIS", "Omni"):
        for lab in LABELS:
            for n in ((1, 2) if quick else (1, 2, 3, 4)):
                if d == "Omni" and n > (2 if quick else 3):
                    continue
                obs.append(EndTail(dialect=d, label=lab, n=n))
            obs.append(EndTail(dialect=d, label=lab, n=1 if quick else 2, sep="forbidden"))
    for entry in ("get_text_binary", "get_text_text", "load_binary", "load_text"):
        for n in ((0, 2) if quick else (0, 1, 3)):
            obs.append(Streams(entry=entry, label="flat", n=n, offset=3))
    for entry in ("get_text_text", "load_text"):
        for n in ((0, 2) if quick else (0, 1, 2, 3)):
            obs.append(Streams(entry=entry, label="flat", n=n, offset=3, readhdr=True))
    for entry in ("decode_by_char", "get_text_binary", "get_text_text", "load_binary", "load_text", "loads_bytes"):
        for n in ((0, 1, 3) if quick else (0, 1, 2, 3, 4, 6)):
            obs.append(Streams(entry=entry, label="flat", n=n))
    for entry in ("load_binary", "load_text", "loads_bytes"):
        for n in ((2, 3) if quick else (1, 2, 3)):
            obs.append(Streams(entry=entry, label="flat", n=n, fused=True))
    for d in ("PVL", "ODL", "PDS3", "ISIS"):
        for mode in ("text", "binary", "textfile"):
            for shape in ("single", "group"):
                for n in ((1, 2) if quick else (0, 1, 2, 3)):
                    obs.append(Dump(dialect=d, mode=mode, shape=shape, n=n))
    return obs


def main(tier="quick", seed=0, jobs=16, only=None, time_scale=1.0):
    obs = obligations(tier)
    if only:
        obs = [o for o in obs if only in o.name]
    return run_property("C09", obs, tier, seed, jobs=jobs, time_scale=time_scale)
