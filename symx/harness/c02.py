"""C02 - the default loader reads back everything any bundled encoder writes.

The C01 harness with the reader replaced by pvl.loads(text) with no other
argument (OmniParser/OmniGrammar/OmniDecoder): the whole-document
dash-continuation substitution, '#' comments, NUL as a reserved character, '+'
unreserved, both sign positions and the empty-value repair hooks are all real
code on the path.  Additionally module.errors must be empty: the repair hooks
must not fire on conformant output.
"""
from .common import run_property
from . import c01


class RoundTripOmni(c01.RoundTrip):
    prop = "C02"
    reader = "omni"
    functions = c01.FUNCS + ("pvl.parser.OmniParser.parse (dash continuation over the document)",
                             "pvl.parser.OmniParser.parse_module_post_hook / parse_value_post_hook",
                             "pvl.decoder.OmniDecoder.*", "pvl.loads")


def obligations(tier):
    return c01.obligations(tier, cls=RoundTripOmni)


def main(tier="quick", seed=0, jobs=16, only=None, time_scale=1.0):
    obs = obligations(tier)
    if only:
        obs = [o for o in obs if only in o.name]
    return run_property("C02", obs, tier, seed, jobs=jobs, time_scale=time_scale)
