"""C17 - value classification is total, exclusive and shared by reader and writer.

One fully symbolic token text s (every length up to the bound) per (grammar,
decoder) pair.  The *class* of s is what the library's own cascade
(decode_simple_value) makes of it; the obligations are the consistency claims
of the property between the three hand-written classifiers:

  Stages     decode_simple_value(s) equals the first success of
             keyword > quoted > non-decimal > decimal > datetime > unquoted
             computed from the separately callable stage functions;
  Predicates Token.is_* agree with the stage of the same name, the stage
             predicates are pairwise exclusive, is_string / is_numeric /
             is_simple_value are the documented unions; text whose class is
             numeric or temporal is never is_unquoted_string / is_parameter_name;
  Writer     encoder.encode_string(s) returns s itself only if s decodes to the
             identical str, and otherwise a quoted form that decodes to s (modulo
             the ODL-family folding of white space), or raises ValueError.
"""
import re

from ..core import SymStr, B, zand, zor, znot, ziff, zimp, mkbool, Unsupported
from .common import Harness, Outcome, dialect, veq, str_eq, kind, run_property, is_strlike

FUNCS = ("pvl.decoder.PVLDecoder.decode_simple_value", "pvl.decoder.PVLDecoder.decode_unquoted_string",
         "pvl.decoder.PVLDecoder.decode_quoted_string", "pvl.decoder.PVLDecoder.decode_decimal",
         "pvl.decoder.PVLDecoder.decode_non_decimal", "pvl.decoder.PVLDecoder.decode_datetime",
         "pvl.token.Token.is_*", "pvl.encoder.PVLEncoder.needs_quotes", "pvl.encoder.PVLEncoder.encode_string",
         "pvl.encoder.ODLEncoder.encode_string", "pvl.encoder.ODLEncoder.is_symbol",
         "pvl.decoder.ODLDecoder.is_identifier")

ALPHA = {"PVL": "latin", "ISIS": "latin", "ODL": "ascii", "PDS3": "ascii", "Omni": "omni"}
STUBS = ("int(str, base)", "float(str) accept language", "datetime.strptime (regex from _strptime.TimeRE + calendar)",
         "str.casefold/isalpha/isdigit/isprintable/isspace tables from unicodedata", "re (compiled to formulas)")


def attempt(fn, *a):
    """('ok', value) or ('ValueError', None); anything else propagates"""
    try:
        return "ok", fn(*a)
    except ValueError:
        return "ValueError", None


class _Base(Harness):
    prop = "C17"
    functions = FUNCS
    stubs = STUBS
    shard_bits = 0

    @property
    def alphabet(self):
        return ALPHA[self.dialect]

    @property
    def bounds(self):
        if getattr(self, "word", None):
            return "the word %r in every combination of letter case (2^%d spellings)" % (
                self.word, sum(c.isalpha() for c in self.word))
        if getattr(self, "shape", None):
            return "every text of the shape %r (d = any ASCII digit)" % self.shape
        return "every string of length %d over alphabet '%s'" % (self.n, ALPHA[self.dialect])

    def inputs(self, ctx):
        word, shape = getattr(self, "word", None), getattr(self, "shape", None)
        if word:
            cs = []
            for i, ch in enumerate(word):
                if ch.isalpha() and ch.lower() != ch.upper():
                    cs.append(ctx.fresh_char("k%d" % i, ((ord(ch.lower()), ord(ch.lower())), (ord(ch.upper()), ord(ch.upper())))))
                else:
                    cs.append(ch)
            return {"s": SymStr(cs)}
        if shape:
            return {"s": SymStr([ctx.fresh_char("d%d" % i, ((48, 57),)) if ch == "d" else ch
                                 for i, ch in enumerate(shape)])}
        return {"s": ctx.fresh_str(self.n, "s")}


WORDS = ("null", "true", "false", "end", "group", "object", "begin_group", "begin_object", "end_group", "end_object",
         "inf", "nan", "infinity", "-inf", "+nan", "1e5", "0x1f", "utc", "z")
SHAPES = ("dddd-dd-dd", "dddd-ddd", "dd:dd", "d:d", "dd:dd:dd", "dd:dd:dd.ddd", "dd:dd:ddZ", "dddd-dd-ddTdd:dd",
          "dddd-dddTdd:dd:dd.dZ", "dd:dd+d", "dd:dd:dd-dd:dd", "d#d#", "dd#dd#", "d#-d#", "-d#d#", "+d.dEd", "d_d",
          "-d", "d.d", ".d", "d.", "dddd-d-d", "d-d")


def fold_ws(L, s):
    """spec of the ODL-family quoted string normalisation (PDS3 SR 12.5.3.2): a hyphen directly
    before a format effector is a continuation (hyphen, the format effector and following white
    space vanish); leading/trailing white space is dropped; every run of white space becomes one
    blank.  Written on the concrete string."""
    G = L.grammar.PVLGrammar
    fe = "".join(G.format_effectors)
    ws = "".join(G.whitespace)
    out = re.sub("-[" + re.escape(fe) + "][" + re.escape(ws) + "]*", "", s)
    return re.sub("[" + re.escape(ws) + "]+", " ", out.strip(ws))


class Stages(_Base):
    must_reach = ("stages",)

    def prop_fn(self, L, inp):
        s = inp["s"]
        dia = dialect(L, self.dialect)
        D, G = dia["decoder"], dia["grammar"]
        full = attempt(D.decode_simple_value, s)
        cf = s.casefold()
        if bool(cf == G.none_keyword.casefold()):
            exp, stage = ("ok", None), "keyword"
        elif bool(cf == G.true_keyword.casefold()):
            exp, stage = ("ok", True), "keyword"
        elif bool(cf == G.false_keyword.casefold()):
            exp, stage = ("ok", False), "keyword"
        else:
            exp = None
            for stage, fn in (("quoted", D.decode_quoted_string), ("nondecimal", D.decode_non_decimal),
                              ("decimal", D.decode_decimal), ("datetime", D.decode_datetime),
                              ("unquoted", D.decode_unquoted_string)):
                r = attempt(fn, s)
                if r[0] == "ok":
                    exp = r
                    break
            if exp is None:
                exp, stage = ("ValueError", None), "notavalue"
        ok = full[0] == exp[0] and (full[0] != "ok" or veq(full[1], exp[1]))
        return Outcome("stages", ok, {"stage": stage, "value": full[1], "status": full[0]})


class Predicates(_Base):
    must_reach = ("predicates",)

    def prop_fn(self, L, inp):
        s = inp["s"]
        dia = dialect(L, self.dialect)
        D, G = dia["decoder"], dia["grammar"]
        tok = L.token.Token(s, grammar=G, decoder=D)
        st = {name: attempt(fn, s)[0] == "ok" for name, fn in (
            ("quoted", D.decode_quoted_string), ("nondecimal", D.decode_non_decimal), ("decimal", D.decode_decimal),
            ("datetime", D.decode_datetime), ("simple", D.decode_simple_value))}
        p = dict(quoted=bool(tok.is_quoted_string()), nondecimal=bool(tok.is_non_decimal()),
                 decimal=bool(tok.is_decimal()), numeric=bool(tok.is_numeric()), datetime=bool(tok.is_datetime()),
                 simple=bool(tok.is_simple_value()), unquoted=bool(tok.is_unquoted_string()),
                 string=bool(tok.is_string()), pname=bool(tok.is_parameter_name()),
                 begin=bool(tok.is_begin_aggregation()), endstmt=bool(tok.is_end_statement()),
                 comment=bool(tok.is_comment()), delim=bool(tok.is_delimiter()))
        # the words that are "not a value" in this dialect, from the specifications (ISIS has no BEGIN_ forms)
        begins = ("group", "object") + (() if self.dialect == "ISIS" else ("begin_group", "begin_object"))
        folded = s.casefold()
        is_begin_kw = any(bool(folded == w) for w in begins)
        not_value = p["begin"] or p["endstmt"] or p["comment"] or p["delim"]
        conds = [
            p["begin"] == is_begin_kw,
            # one class only: a block keyword, END, a comment or a delimiter is never also a value or a parameter name
            # (is_unquoted_string is the purely lexical test and is true for keywords as well: not part of this)
            not (not_value and (p["pname"] or p["simple"] or p["quoted"] or p["numeric"] or p["datetime"])),
            not (p["begin"] and p["endstmt"]),
            p["quoted"] == st["quoted"], p["nondecimal"] == st["nondecimal"], p["decimal"] == st["decimal"],
            p["datetime"] == st["datetime"], p["simple"] == st["simple"],
            p["numeric"] == (st["nondecimal"] or st["decimal"]),
            p["string"] == (p["quoted"] or p["unquoted"]),
            # pairwise exclusive stage predicates
            not (p["quoted"] and p["numeric"]), not (p["quoted"] and p["datetime"]), not (p["quoted"] and p["unquoted"]),
            not (p["numeric"] and p["datetime"]), not (p["numeric"] and p["unquoted"]),
            not (p["datetime"] and p["unquoted"]),
            # the second consequence of the statement
            not ((p["numeric"] or p["datetime"]) and (p["unquoted"] or p["pname"])),
            # a parameter name is an unquoted string
            (not p["pname"]) or p["unquoted"],
        ]
        return Outcome("predicates", all(conds), {"predicates": p, "stages": st})


class Writer(_Base):
    must_reach = ("unquoted", "quoted")

    def known(self, L, inp):
        return ()

    def prop_fn(self, L, inp):
        s = inp["s"]
        dia = dialect(L, self.dialect)
        D, G = dia["decoder"], dia["grammar"]
        E = dia["encoder"]()
        try:
            t = E.encode_string(s)
        except ValueError:
            return Outcome("refused", True, None)
        if len(t) == len(s):
            # written as is: must read back as the identical string
            if not bool(t == s):
                return Outcome("altered", False, {"text": t})
            r = attempt(D.decode_simple_value, t)
            ok = r[0] == "ok" and is_strlike(r[1]) and str_eq(r[1], s)
            return Outcome("unquoted", ok, {"text": t, "back": r[1], "status": r[0]})
        # quoted: a quote character of the grammar on both sides of s itself
        q = t[0]
        wellformed = len(t) == len(s) + 2 and bool(cmod_in(q, G.quotes)) and bool(t[-1] == q) and bool(t[1:-1] == s)
        if not wellformed:
            return Outcome("malformed", False, {"text": t})
        r = attempt(D.decode_simple_value, t)
        if r[0] != "ok" or not is_strlike(r[1]):
            return Outcome("quoted", False, {"text": t, "back": r[1], "status": r[0]})
        if self.dialect in ("ODL", "PDS3", "Omni"):
            # documented normalisation: compare with the spec-side folding of s.  The folding is
            # evaluated concretely, so on a symbolic path it is applied to both sides through the
            # decoder-independent helper below.
            exp = fold_sym(L, s)
        else:
            exp = s
        return Outcome("quoted", str_eq(r[1], exp), {"text": t, "back": r[1], "status": r[0]})


def cmod_in(a, b):
    from .. import cmodels
    return cmodels.__sym_in__(a, b) if isinstance(a, SymStr) else (a in b)


def fold_sym(L, s):
    """fold_ws for a possibly symbolic string: same rule, written over elements with decisions"""
    if isinstance(s, str):
        return fold_ws(L, s)
    from ..rx import sym_compile
    G = L.grammar.PVLGrammar
    fe = "".join(G.format_effectors)
    ws = "".join(G.whitespace)
    out = sym_compile("-[" + re.escape(fe) + "][" + re.escape(ws) + "]*").sub("", s)
    out = out.strip(ws) if not isinstance(out, str) else out.strip(ws)
    return sym_compile("[" + re.escape(ws) + "]+").sub(" ", out) if not isinstance(out, str) else re.sub(
        "[" + re.escape(ws) + "]+", " ", out)


def obligations(tier):
    obs = []
    nfree = {"quick": 3, "thorough": 4}[tier]
    nwriter = {"quick": 4, "thorough": 6}[tier]
    for d in ("PVL", "ODL", "PDS3", "ISIS", "Omni"):
        for n in range(0, nfree + (0 if d != "Omni" else -1) + 1):
            bits = 0 if n < 3 else (5 if n == 3 else 7)
            obs.append(Stages(dialect=d, n=n, shard_bits=max(0, bits - 2)))
            obs.append(Predicates(dialect=d, n=n, shard_bits=bits))
        for w in WORDS:
            obs.append(Predicates(dialect=d, word=w))
            obs.append(Stages(dialect=d, word=w))
        for sh in SHAPES:
            obs.append(Predicates(dialect=d, shape=sh))
            obs.append(Stages(dialect=d, shape=sh))
        if d != "Omni":
            for n in range(0, nwriter + 1):
                obs.append(Writer(dialect=d, n=n, shard_bits=0 if n < 5 else 3))
            for w in WORDS:
                obs.append(Writer(dialect=d, word=w))
            for sh in SHAPES:
                obs.append(Writer(dialect=d, shape=sh))
    return obs


def main(tier="quick", seed=0, jobs=16, only=None, time_scale=1.0):
    obs = obligations(tier)
    if only:
        obs = [o for o in obs if only in o.name]
    return run_property("C17", obs, tier, seed, jobs=jobs, time_scale=time_scale)
