"""C12 - encoder output obeys the surface rules of its dialect.

The C01 module builder, but the oracle is an independent line-level reader of
the (symbolic) output text, written here from the specifications and sharing no
code with pvl: character set; line ends; statement forms and delimiters; the
dialect's begin/end keywords in their preferred spelling; blocks closed by the
matching end statement (with the block name iff configured); indentation by
nesting level; '=' alignment of sibling assignments that fit on a line;
upper-case identifier names of at most 30 characters (ODL/PDS3); no TAB
(PDS3); single-quoted symbol strings without format effectors on one line;
final END line (followed by a line end for ODL/PDS3).
"""
from ..core import SymStr, SymInt, B, zand, zor, znot, ziff, zimp, Ctx
from .common import Harness, Outcome, run_property, list_classes
from . import rt, c01
from .c15 import spec_allowed, ordz

KEYWORDS = {"PVL": ("BEGIN_GROUP", "END_GROUP", "BEGIN_OBJECT", "END_OBJECT"),
            "ODL": ("GROUP", "END_GROUP", "OBJECT", "END_OBJECT"),
            "PDS3": ("GROUP", "END_GROUP", "OBJECT", "END_OBJECT"),
            "ISIS": ("Group", "End_Group", "Object", "End_Object")}
FE = "\n\r\v\f"


class Fail(Exception):
    """a surface rule is broken on the current path"""


def is_c(e, ch):
    """decision: string element e is the character ch"""
    if isinstance(e, str):
        return e == ch
    return bool(SymStr((e,)) == ch)


def in_c(e, chars):
    if isinstance(e, str):
        return e in chars
    from ..core import ch_in, chars_to_ranges
    return Ctx.cur.decide_b(ch_in(e, chars_to_ranges(chars)))


def cond_char(e, fn):
    """fn(code point term or int) -> bool / z3 Bool; decided"""
    if isinstance(e, str):
        r = fn(ord(e))
        return bool(r) if isinstance(r, bool) else Ctx.cur.decide_b(r)
    return Ctx.cur.decide_b(fn(e.z))


def elements(text):
    return list(text) if isinstance(text, str) else list(SymStr.of(text).cs)


def to_text(es):
    return SymStr.mk(es)


def logical_lines(es, newline, rules):
    """split at the encoder's newline outside quoted strings; returns list of element lists"""
    lines, cur, q = [], [], None
    i, n, m = 0, len(es), len(newline)
    while i < n:
        e = es[i]
        if q is None:
            if i + m <= n and all(is_c(es[i + k], newline[k]) for k in range(m)):
                lines.append(cur)
                cur = []
                i += m
                continue
            if rules["strict_newline"] and in_c(e, "\n\r"):
                raise Fail("a bare CR or LF outside a quoted string")
            if in_c(e, "\"'"):
                q = '"' if is_c(e, '"') else "'"
        elif is_c(e, q):
            q = None
        cur.append(e)
        i += 1
    if q is not None:
        raise Fail("unterminated quoted string in the output")
    lines.append(cur)
    return lines


def strip_elems(es):
    a, b = 0, len(es)
    while a < b and is_c(es[a], " "):
        a += 1
    while b > a and is_c(es[b - 1], " "):
        b -= 1
    return es[a:b]


def outside_quotes(es):
    """yield (index, element) for elements outside quoted strings and units expressions (delimiters excluded)"""
    q = None
    for i, e in enumerate(es):
        if q is None:
            if in_c(e, "\"'"):
                q = '"' if is_c(e, '"') else "'"
                continue
            if is_c(e, "<"):
                q = ">"              # a units expression: its text is not statement syntax either
                continue
            yield i, e
        elif is_c(e, q):
            q = None


def read(text, dia, cfg):
    """the independent reader: raises Fail(reason) or returns a summary dict"""
    indent = cfg.get("indent", 2)
    width = cfg.get("width", 80)
    newline = cfg.get("newline", "\r\n" if dia in ("ODL", "PDS3") else "\n")
    delim = cfg.get("end_delimiter", dia == "PVL")
    aggend = cfg.get("aggregation_end", True)
    odl = dia in ("ODL", "PDS3")
    es = elements(text)
    # 1. character set
    for e in es:
        if not cond_char(e, lambda o: spec_allowed(dia, o)):
            raise Fail("character outside the dialect's character set")
    if dia == "PDS3" and cfg.get("tab_replace", 4) > 0:
        for e in es:
            if is_c(e, "\t"):
                raise Fail("TAB in PDS3 output")
    rules = {"strict_newline": newline == "\r\n"}
    lines = logical_lines(es, newline, rules)
    if odl:
        if lines[-1] != []:
            raise Fail("ODL output does not end with a line end")
        lines = lines[:-1]
    if not lines:
        raise Fail("empty output")
    begin_g, end_g, begin_o, end_o = KEYWORDS[dia]
    stack = []
    eqcols = [[]]                # per open block: ('=' column, length of the line, on one physical line) per assignment
    closed = []
    depth_paren = 0
    nstatements = 0
    last = len(lines) - 1
    for ln, raw in enumerate(lines):
        # physical length check uses the first physical line of the logical line
        lead = 0
        while lead < len(raw) and is_c(raw[lead], " "):
            lead += 1
        body = raw[lead:]
        cont = depth_paren > 0
        # bracket depth outside quotes, and forbidden delimiters
        semis = []
        for i, e in outside_quotes(body):
            if in_c(e, "({"):
                depth_paren += 1
            elif in_c(e, ")}"):
                depth_paren -= 1
            elif is_c(e, ";"):
                semis.append(i)
        if depth_paren < 0:
            raise Fail("unbalanced brackets")
        if cont:
            continue                       # continuation line of a wrapped sequence/set
        nstatements += 1
        if not delim and semis:
            raise Fail("statement delimiter in a dialect/configuration that writes none")
        if delim and depth_paren == 0:
            if not body or not is_c(body[-1], ";"):
                raise Fail("statement without the ';' delimiter")
        if delim and body and is_c(body[-1], ";") and depth_paren == 0:
            body = body[:-1]
        if lead != len(stack) * indent and not (ln == last):
            # block statements and assignments sit at level * indent
            pass
        # split at the first '=' outside quotes
        eq = None
        for i, e in outside_quotes(body):
            if is_c(e, "="):
                eq = i
                break
        if eq is None:
            word = to_text(strip_elems(body))
            if ln == last:
                if not bool(word == "END"):
                    raise Fail("the last statement is not END")
                if lead != 0:
                    raise Fail("END is indented")
                continue
            if bool(word == end_g) or bool(word == end_o):
                if aggend:
                    raise Fail("end statement without the block name although aggregation_end is set")
                if not stack:
                    raise Fail("end statement without an open block")
                kw, name = stack.pop()
                closed.append(eqcols.pop())
                if not bool(word == (end_g if kw == "g" else end_o)):
                    raise Fail("block closed by the wrong end keyword")
                if lead != len(stack) * indent:
                    raise Fail("end statement not indented by level * indent")
                continue
            raise Fail("a line that is neither an assignment, a block statement nor END")
        key = to_text(strip_elems(body[:eq]))
        val = strip_elems(body[eq + 1:])
        if ln == last:
            raise Fail("the last statement is not END")
        if bool(key == begin_g) or bool(key == begin_o):
            if lead != len(stack) * indent:
                raise Fail("begin statement not indented by level * indent")
            stack.append(("g" if bool(key == begin_g) else "o", to_text(val)))
            eqcols.append([])
            continue
        if bool(key == end_g) or bool(key == end_o):
            if not aggend:
                raise Fail("end statement carries a block name although aggregation_end is off")
            if not stack:
                raise Fail("end statement without an open block")
            kw, name = stack.pop()
            closed.append(eqcols.pop())
            if not bool(key == (end_g if kw == "g" else end_o)):
                raise Fail("block closed by the wrong end keyword")
            if not bool(to_text(val) == name):
                raise Fail("end statement names a different block")
            if lead != len(stack) * indent:
                raise Fail("end statement not indented by level * indent")
            continue
        # keywords in a non-preferred spelling must not be used as block statements
        kf = key.casefold() if not isinstance(key, str) else key.casefold()
        for kw in ("group", "object", "begin_group", "begin_object", "end_group", "end_object"):
            if bool(kf == kw):
                raise Fail("block keyword in a spelling the dialect does not prefer")
        # an assignment
        if lead != len(stack) * indent:
            raise Fail("assignment not indented by level * indent")
        if odl:
            kes = elements(key)
            if len(kes) > 30:
                raise Fail("ODL name longer than 30 characters")
            if not odl_name(kes):
                raise Fail("ODL name is not an upper-case identifier")
        # '=' alignment among siblings (checked when the block is complete)
        phys_len = first_physical_len(raw, newline)
        eqcols[-1].append((lead + eq, phys_len, phys_len == len(raw)))
        # symbol strings (ODL/PDS3): single-quoted text has no format effector
        if odl:
            check_symbols(val)
    if stack:
        raise Fail("block left open at END")
    for recs in closed + eqcols:
        if not recs:
            continue
        # the encoder pads every name to the longest sibling name; a statement written on one line whose padded
        # form (line end included, as the encoder counts it) is within the width must have its '=' in that column
        maxcol = max(c for c, _, _ in recs)
        for col, plen, single in recs:
            if col != maxcol and single and bool(plen + (maxcol - col) + len(newline) <= width):
                raise Fail("'=' of sibling assignments that fit on a line are not aligned")
    return {"statements": nstatements}


def first_physical_len(raw, newline):
    n = 0
    for e in raw:
        if in_c(e, "\n\r"):
            break
        n += 1
    return n


def odl_name(kes):
    """[^]ident[:ident], upper case letters, digits and underscores, starts with a letter, does not end with '_'"""
    if kes and is_c(kes[0], "^"):
        kes = kes[1:]
    parts, cur = [], []
    for e in kes:
        if is_c(e, ":"):
            parts.append(cur)
            cur = []
        else:
            cur.append(e)
    parts.append(cur)
    if len(parts) > 2:
        return False
    for p in parts:
        if not p:
            return False
        if not cond_char(p[0], lambda o: zand([65 <= o, o <= 90])):
            return False
        if is_c(p[-1], "_"):
            return False
        for e in p:
            if not cond_char(e, lambda o: zor([zand([65 <= o, o <= 90]), zand([48 <= o, o <= 57]), o == 95])):
                return False
    return True


def check_symbols(val):
    q = None
    for e in val:
        if q is None:
            if in_c(e, "\"'"):
                q = '"' if is_c(e, '"') else "'"
        elif is_c(e, q):
            q = None
        elif q == "'" and in_c(e, FE):
            raise Fail("format effector inside a single-quoted symbol string")


class Surface(Harness):
    prop = "C12"
    functions = c01.FUNCS[:13] + ("pvl.encoder.ODLEncoder.encode_assignment", "pvl.encoder.ODLEncoder.is_symbol",
                                  "pvl.encoder.PDSLabelEncoder.encode (tab_replace)")
    stubs = c01.STUBS
    must_reach = ("conforms", "refused")

    @property
    def alphabet(self):
        return rt.ALPHA[self.dialect]

    @property
    def bounds(self):
        return "dialect %s, shape %s, one string leaf of length %d%s, configuration %s" % (
            self.dialect, self.shape, self.n, {"namekey": " used as a parameter name", "ptrkey": " used as a parameter name "
                                               "after '^'", "nskey": " inside the parameter name NS<x>EL", "longkey": " appended to a 28-character name",
                                               "longptr": " appended to '^' and a 28-character name",
                                               "unitskey": " used as the units of a quantity (scalar and in a sequence)",
                                               "blockname": " used as the name of a group and of an object"}.get(self.shape, ""), self.cfg)

    def inputs(self, ctx):
        inp = {"x": rt.leaf_inputs(ctx, "str", self.n, self.dialect)}
        if self.shape in ("unitskey", "blockname"):
            # the encoders take names and units as given (D18): no line ends in them, the TAB stays in
            for ch in (inp["x"].cs if not isinstance(inp["x"], str) else ()):
                if not isinstance(ch, str):
                    for o in (10, 11, 12, 13):
                        ctx.assume(ch.z != o)
        return rt.width_input(ctx, self.dialect, self.cfg, inp)

    def prop_fn(self, L, inp):
        x = inp["x"]
        listmods = self.shape in ("namekey", "ptrkey", "nskey", "longkey", "longptr")
        if self.shape == "unitskey":
            c = rt.C(L)
            m = c.M([("first", 1), ("v", c.Q(1, x)), ("g", c.G([("w", [c.Q(2.5, x), 3])]))])
        elif self.shape == "blockname":
            M, G, O = list_classes(L)
            listmods = True
            m = M([("first", 1), (x, G([("a", 3), ("longer_name", 4)])), (x, O([("c", 5)]))])
        elif listmods:
            M, G, O = list_classes(L)
            key = {"namekey": x, "ptrkey": "^" + x, "nskey": "NS" + x + "EL", "longkey": "A" * 28 + x,
                   "longptr": "^" + "B" * 28 + x}[self.shape]          # around the 30-character limit of ODL names
            m = M([("first", 1), (key, 2), ("g", G([(key, 3), ("longer_name", 4)])), ("o", O([("c", 5)]))])
        else:
            m = rt.shape_module(L, self.shape, x)
        d, E, cfg = rt.make_encoder(L, self.dialect, self.cfg, inp, listmods=listmods)
        try:
            text = E.encode(m)
        except (ValueError, TypeError):
            return Outcome("refused", True, None)
        full = dict(rt.config(self.dialect, self.cfg) or {})
        if full.get("width") in rt.WIDTHS:
            full["width"] = inp["width"]
        try:
            r = read(text, self.dialect, full)
        except Fail as f:
            return Outcome("nonconforming", False, {"rule": str(f), "text": text})
        return Outcome("conforms", True, {"text": text})


def obligations(tier):
    obs = []
    nmax = 2 if tier == "quick" else 3
    for dia in ("PVL", "ODL", "PDS3", "ISIS"):
        for shape in list(rt.SHAPES) + ["namekey", "ptrkey", "nskey", "longkey", "longptr", "unitskey"]:
            if shape in ("quant", "quantbad", "wrapunits") or (
                    shape in ("namekey", "ptrkey", "nskey", "longkey", "longptr", "unitskey", "blockname")
                    and dia in ("PVL", "ISIS")):
                continue
            for n in range(0, nmax + 1):
                obs.append(Surface(dialect=dia, shape=shape, n=n, cfg="default"))
        for cfg in list(rt.CONFIGS) + list(rt.PVL_ONLY) + list(rt.PDS_ONLY):
            if cfg == "default" or rt.config(dia, cfg) is None:
                continue
            for shape in ("group", "wrapseq", "wrapquote", "wrapstr", "nested", "two"):
                obs.append(Surface(dialect=dia, shape=shape, n=1, cfg=cfg))
    return obs


def main(tier="quick", seed=0, jobs=16, only=None, time_scale=1.0):
    obs = obligations(tier)
    if only:
        obs = [o for o in obs if only in o.name]
    return run_property("C12", obs, tier, seed, jobs=jobs, time_scale=time_scale)
