"""C06 - loaders terminate and fail only with the documented error types.

(i)  Character level: pvl.loads(s, ...) for a FULLY symbolic text s of every
     length up to the bound (all characters unconstrained within the alphabet),
     five loader configurations: the outcome is a module, LexerError or
     ParseError - nothing else escapes.
(ii) Token level: the real parser driven through lexer_fn by a symbolic token
     stream (stream.py) of up to k tokens over a 19-lexeme vocabulary: same
     assertion, plus a progress measure - the number of generator operations
     on a path is bounded by 40 * (k + 2); exceeding it is reported as a hang
     (termination itself cannot be proved by bounded execution).
"""
from ..core import SymStr, B, zand
from .common import Harness, Outcome, dialect, run_property
from . import stream as st

LOADERS = ("PVL", "ODL", "PDS3", "ISIS", "Omni")
ALPHA = {"PVL": "latin", "ISIS": "latin", "ODL": "ascii", "PDS3": "ascii", "Omni": "omni"}
FUNCS = ("pvl.loads", "pvl.lexer.lexer", "pvl.lexer.lex_char", "pvl.lexer.lex_continue", "pvl.parser.*Parser.parse",
         "pvl.parser.PVLParser.parse_module", "…parse_aggregation_block", "…parse_begin_aggregation_statement",
         "…parse_end_aggregation", "…parse_assignment_statement", "…parse_value", "…_parse_set_seq", "…parse_units",
         "…parse_WSC_until", "…parse_statement_delimiter", "pvl.parser.OmniParser hooks", "pvl.decoder.*.decode_simple_value")


def load(L, name, text=None, lexer_fn=None):
    from .common import list_classes
    if name == "Omni":
        if lexer_fn is None:
            # parameter names are symbolic here: containers that keep only the item list
            M, G, O = list_classes(L)
            return L.pvl.loads(text, module_class=M, group_class=G, object_class=O)
        return L.parser.OmniParser(lexer_fn=lexer_fn).parse("")
    d = dialect(L, name, listmods=lexer_fn is None)
    if lexer_fn is None:
        return L.pvl.loads(text, parser=d["parser"])
    P = type(d["parser"])(grammar=d["grammar"], decoder=d["decoder"], lexer_fn=lexer_fn)
    return P.parse("")


def snap(m):
    if hasattr(m, "items"):
        return [type(m).__name__] + [(k, snap(v)) for k, v in m.items()]
    if isinstance(m, (list,)):
        return [snap(x) for x in m]
    return m


def _first_parts():
    parts = [((0, 8),), ((9, 13),), ((14, 31),), ((48, 57),), ((65, 90),), ((97, 122),), ((127, 159),), ((160, 255),),
             ((256, 0x10FFFF),)]
    parts += [((c, c),) for c in list(range(32, 48)) + list(range(58, 65)) + list(range(91, 97)) + list(range(123, 127))]
    return parts


FIRST = _first_parts()


class Chars(Harness):
    prop = "C06"
    functions = FUNCS
    must_reach = ("module", "LexerError")
    timeout = 170

    @property
    def alphabet(self):
        return ALPHA[self.dialect]

    @property
    def bounds(self):
        f = getattr(self, "first", None)
        return "loader %s, every text of length %d over alphabet '%s'%s" % (
            self.dialect, self.n, ALPHA[self.dialect],
            "" if f is None else " whose first character lies in %s (one obligation per part of the alphabet)" % (FIRST[f],))

    def inputs(self, ctx):
        first = getattr(self, "first", None)
        if first is None:
            return {"s": ctx.fresh_str(self.n, "s")}
        # a large obligation is split by the class of its first character (FIRST partitions the alphabet)
        from ..core import ranges_inter, ALPHABETS
        dom = ranges_inter(ALPHABETS[ALPHA[self.dialect]], FIRST[first])
        return {"s": SymStr([ctx.fresh_char("s0", dom)] + list(ctx.fresh_str(self.n - 1, "s").cs))}

    def prop_fn(self, L, inp):
        s = inp["s"]
        try:
            m = load(L, self.dialect, text=s)
        except L.exceptions.LexerError:
            return Outcome("LexerError", True, None)
        except L.exceptions.ParseError:
            return Outcome("ParseError", True, None)
        return Outcome("module", hasattr(m, "items"), {"module": snap(m)})


VALUE_SHAPES = ("dd:dd:ddsdd", "dd:dd:ddsdd:dd", "dd:dd:dd.dZsd", "dddd-dd-ddTdd:dd:ddsd", "dddd-dddTdd:dd", "dd:ddsdddd",
                "d:d:d:d", "dd:dd:dd.dddddddd", "dddd-dd-ddT", "d#d#", "sd#dd#", "dd#sd#", "d#sd", "dd#dd#d", "s#d#",
                "dEsd", "sd.dEsdd", "d.d.d", "sd_d", "dEd.d", "sdd:dd", "dddd-dd-dd-dd", "dddd-dddd")


class Shaped(Harness):
    """value texts shaped like dates, times with zones, based integers and reals, every digit (d) and sign (s)
    symbolic: as a value, as a sequence element and as a parameter name the loader returns a module or raises
    LexerError/ParseError"""
    prop = "C06"
    functions = FUNCS
    must_reach = ("module", "LexerError", "ParseError")
    timeout = 170
    alphabet = "ascii"

    @property
    def bounds(self):
        return "loader %s, text 'a = <v>', 'b = (1, <v>)' and '<v> = 1' with v of shape %s (d = every digit, s = + or -)" % (
            self.dialect, self.shape)

    def inputs(self, ctx):
        cs = []
        for i, ch in enumerate(self.shape):
            if ch == "d":
                cs.append(ctx.fresh_char("d%d" % i, ((48, 57),)))
            elif ch == "s":
                cs.append(ctx.fresh_char("s%d" % i, ((43, 43), (45, 45))))
            else:
                cs.append(ch)
        return {"v": SymStr(cs)}

    def prop_fn(self, L, inp):
        v = inp["v"]
        tags = []
        for text in ("a = " + v + "\nEND\n", "b = (1, " + v + ")\n", v + " = 1\n"):
            try:
                m = load(L, self.dialect, text=text)
                tags.append("module")
                if not hasattr(m, "items"):
                    return Outcome("module", False, {"text": text})
            except L.exceptions.LexerError:
                tags.append("LexerError")
            except L.exceptions.ParseError:
                tags.append("ParseError")
        return Outcome(tags[0], True, {"outcomes": tags})


TOKEN_PREFIXES = {"": [], "inset": ["a", "=", "{"], "inseq": ["a", "=", "(", "1", ","], "ingroup": ["GROUP", "=", "a"],
                  "setinset": ["a", "=", "{", "{"], "afterunits": ["a", "=", "(", "1", "<m>"],
                  "seqinset": ["a", "=", "{", "("]}


class Tokens(Harness):
    prop = "C06"
    alphabet = "ascii"
    functions = FUNCS
    must_reach = ("module", "LexerError")
    timeout = 170

    @property
    def bounds(self):
        return ("loader %s, the fixed token prefix %s%s followed by every stream of at most %d tokens over the %d-lexeme "
                "vocabulary %s (choices made lazily: positions never pulled stay free)" % (
                    self.dialect, TOKEN_PREFIXES[getattr(self, "prefix", "")],
                    (" + first token no. %s (one obligation per choice)" % self.split) if getattr(self, "split", "") else "",
                    self.k, len(st.VOCAB), st.VOCAB))

    def inputs(self, ctx):
        sp = getattr(self, "split", "")
        pre = [st.VOCAB.index(t) for t in TOKEN_PREFIXES[getattr(self, "prefix", "")]] + ([int(x) for x in sp.split(".")] if sp else [])
        return {"stream": st.LazyStream(ctx, self.k, pre)}

    def prop_fn(self, L, inp):
        picked = []
        counter = st.Counter(40 * (self.k + 2 + len(TOKEN_PREFIXES[getattr(self, "prefix", "")])))
        lx = st.make_lexer(L, inp["stream"], picked, counter)
        try:
            m = load(L, self.dialect, lexer_fn=lx)
        except L.exceptions.LexerError:
            return Outcome("LexerError", True, {"tokens": list(picked)})
        except L.exceptions.ParseError:
            return Outcome("ParseError", True, {"tokens": list(picked)})
        except st.Hang:
            return Outcome("hang", False, {"tokens": list(picked), "generator_operations": counter.ops})
        return Outcome("module", hasattr(m, "items"), {"tokens": list(picked), "module": snap(m)})


def obligations(tier):
    obs = []
    quick = tier == "quick"
    for d in LOADERS:
        nmax = (3 if d != "Omni" else 2) if quick else (4 if d != "Omni" else 3)
        from ..core import ranges_inter, ALPHABETS
        for n in range(0, nmax + 1):
            if n < 4:
                obs.append(Chars(dialect=d, n=n, shard_bits=0 if n < 3 else 4))
            else:
                for i, part in enumerate(FIRST):
                    if ranges_inter(ALPHABETS[ALPHA[d]], part):
                        obs.append(Chars(dialect=d, n=n, first=i, shard_bits=2))
        for sh in VALUE_SHAPES:
            obs.append(Shaped(dialect=d, shape=sh))
        if quick:
            obs.append(Tokens(dialect=d, k=5, shard_bits=5))
        else:
            # 6 tokens = every choice of the first one + 5 symbolic ones
            from .c05 import splits
            obs += [Tokens(dialect=d, k=5, split=sp, shard_bits=3) for sp in splits(1)]
        for pre in TOKEN_PREFIXES:
            if pre:
                obs.append(Tokens(dialect=d, k=3 if quick else 4, prefix=pre, shard_bits=4 if quick else 6))
    return obs


def main(tier="quick", seed=0, jobs=16, only=None, time_scale=1.0):
    obs = obligations(tier)
    if only:
        obs = [o for o in obs if only in o.name]
    return run_property("C06", obs, tier, seed, jobs=jobs, time_scale=time_scale)
