"""helpers shared by the property harnesses: dialect table, deep equality that
works on proxies and on concrete values alike, spec-side predicates."""
import datetime as _dt

from ..core import (SymStr, SymInt, SymBool, B, zand, zor, znot, ziff, zimp, Unsupported, Ctx)
from ..framework import Outcome, Harness, run_property  # noqa: F401 (re-export)

try:                                   # the engine is absent in a replay process only if z3 is missing
    from .. import cmodels as _cm
    SymFloat, SymDate, SymTime, SymDatetime, SymSet = _cm.SymFloat, _cm.SymDate, _cm.SymTime, _cm.SymDatetime, _cm.SymSet
    SymTimedelta, SymTz = _cm.SymTimedelta, _cm.SymTz
except Exception:                      # pragma: no cover
    _cm = None

DIALECTS = ("PVL", "ODL", "PDS3", "ISIS")
STRICT_LOADERS = ("PVL", "ODL", "PDS3", "ISIS")
ALL_LOADERS = ("PVL", "ODL", "PDS3", "ISIS", "Omni")


def dialect(L, name, listmods=False, **enc_kw):
    """the four-part configuration of a dialect as DESIGN.md section 5 defines it;
    listmods=True makes the parser build list-only containers (symbolic names)"""
    g, d, e = L.grammar, L.decoder, L.encoder
    p = L.parser
    if listmods:
        M, Gc, Oc = list_classes(L)

        class _P:
            pass
        _P.PVLParser = lambda **k: L.parser.PVLParser(module_class=M, group_class=Gc, object_class=Oc, **k)
        _P.ODLParser = lambda **k: L.parser.ODLParser(module_class=M, group_class=Gc, object_class=Oc, **k)
        _P.OmniParser = lambda **k: L.parser.OmniParser(module_class=M, group_class=Gc, object_class=Oc, **k)
        p = _P
    if name == "PVL":
        G = g.PVLGrammar()
        D = d.PVLDecoder(grammar=G)
        return dict(name=name, grammar=G, decoder=D, parser=p.PVLParser(grammar=G, decoder=D),
                    encoder=lambda **k: e.PVLEncoder(grammar=G, decoder=D, **{**enc_kw, **k}))
    if name == "ODL":
        G = g.ODLGrammar()
        D = d.ODLDecoder(grammar=G)
        return dict(name=name, grammar=G, decoder=D, parser=p.ODLParser(grammar=G, decoder=D),
                    encoder=lambda **k: e.ODLEncoder(grammar=G, decoder=D, **{**enc_kw, **k}))
    if name == "PDS3":
        G = g.PDSGrammar()
        D = d.PDSLabelDecoder(grammar=G)
        return dict(name=name, grammar=G, decoder=D, parser=p.ODLParser(grammar=G, decoder=D),
                    encoder=lambda **k: e.PDSLabelEncoder(grammar=G, decoder=D, **{**enc_kw, **k}))
    if name == "ISIS":
        G = g.ISISGrammar()
        D = d.PVLDecoder(grammar=G)
        return dict(name=name, grammar=G, decoder=D, parser=p.PVLParser(grammar=G, decoder=D),
                    encoder=lambda **k: e.ISISEncoder(grammar=G, decoder=D, **{**enc_kw, **k}))
    if name == "Omni":
        G = g.OmniGrammar()
        D = d.OmniDecoder(grammar=G)
        return dict(name=name, grammar=G, decoder=D, parser=p.OmniParser(grammar=G, decoder=D),
                    encoder=lambda **k: e.PVLEncoder(grammar=G, decoder=D, **{**enc_kw, **k}))
    raise KeyError(name)


def is_strlike(v):
    return isinstance(v, (str, SymStr))


def is_intlike(v):
    return isinstance(v, (int, SymInt)) and not isinstance(v, (bool, SymBool))


def kind(v):
    """spec-side type tag of a decoded / to-be-encoded value"""
    if v is None:
        return "none"
    if isinstance(v, (bool, SymBool)):
        return "bool"
    if is_intlike(v):
        return "int"
    if isinstance(v, float) or (_cm and isinstance(v, SymFloat)):
        return "float"
    if is_strlike(v):
        return "str"
    if isinstance(v, _dt.datetime) or (_cm and isinstance(v, SymDatetime)):
        return "datetime"
    if isinstance(v, _dt.date) or (_cm and isinstance(v, SymDate)):
        return "date"
    if isinstance(v, _dt.time) or (_cm and isinstance(v, SymTime)):
        return "time"
    if isinstance(v, list):
        return "list"
    if isinstance(v, (set, frozenset)) or (_cm and isinstance(v, SymSet)):
        return "set"
    if isinstance(v, tuple) and hasattr(v, "_fields") and type(v).__name__ in ("Quantity", "Units"):
        return "quantity"
    if hasattr(v, "items"):
        return "map:" + type(v).__name__
    return "other:" + type(v).__name__


def str_eq(a, b):
    if isinstance(a, SymStr):
        return a.eqz(b)
    if isinstance(b, SymStr):
        return b.eqz(a)
    return str(a) == str(b)


def int_eq(a, b):
    r = a == b
    return B(r)


def tz_offset_minutes(t):
    """utc offset of a time/datetime (proxy or real) in minutes: None | int | SymInt"""
    off = t.utcoffset()
    if off is None:
        return None
    if _cm and isinstance(off, SymTimedelta):
        return off.minutes
    secs = off.total_seconds()
    if secs != int(secs) or int(secs) % 60:
        raise Unsupported("sub-minute zone offset")
    return int(secs) // 60


def temporal_eq(a, b):
    """same Python type, same fields, same zone meaning (both naive, or equal offsets)"""
    ka, kb = kind(a), kind(b)
    if ka != kb:
        return False
    names = {"date": ("year", "month", "day"), "time": ("hour", "minute", "second", "microsecond"),
             "datetime": ("year", "month", "day", "hour", "minute", "second", "microsecond")}[ka]
    conds = [int_eq(getattr(a, n), getattr(b, n)) for n in names]
    if ka != "date":
        oa, ob = tz_offset_minutes(a), tz_offset_minutes(b)
        if (oa is None) != (ob is None):
            return False
        if oa is not None:
            conds.append(int_eq(oa, ob))
    return zand(conds)


def veq(a, b, mapcls=None):
    """deep, type-strict equality of two values -> python bool or z3 Bool.
    *mapcls*(a, b) decides whether two container classes are acceptable partners."""
    ka, kb = kind(a), kind(b)
    if ka != kb and not (ka.startswith("map:") and kb.startswith("map:")):
        return False
    if ka == "none":
        return True
    if ka == "bool":
        return ziff(B(a), B(b))
    if ka == "int":
        return int_eq(a, b)
    if ka == "float":
        if isinstance(a, float) and isinstance(b, float):
            return a == b or (a != a and b != b)
        r = a == b
        return B(r)
    if ka == "str":
        return str_eq(a, b)
    if ka in ("date", "time", "datetime"):
        return temporal_eq(a, b)
    if ka == "list":
        if len(a) != len(b):
            return False
        return zand([veq(x, y, mapcls) for x, y in zip(a, b)])
    if ka == "set":
        la, lb = list(a), list(b)
        if len(la) != len(lb):
            return False
        return zand([zor([veq(x, y, mapcls) for y in lb]) for x in la])
    if ka == "quantity":
        return zand([veq(a.value, b.value, mapcls), str_eq(a.units, b.units)])
    if ka.startswith("map:"):
        if mapcls is not None:
            if not mapcls(a, b):
                return False
        elif type(a).__name__ != type(b).__name__:
            return False
        ia, ib = list(a.items()), list(b.items())
        if len(ia) != len(ib):
            return False
        return zand([zand([str_eq(k1, k2), veq(v1, v2, mapcls)]) for (k1, v1), (k2, v2) in zip(ia, ib)])
    raise Unsupported("veq of %s" % ka)


def describe(v):
    """JSON-able structural description for evidence / mismatch reports (concretizable)"""
    return v


def py_isspace_cond(c):
    """c is one element of a string (1-char str or SymStr of length 1)"""
    if isinstance(c, str):
        return c.isspace()
    return B(c.isspace())


_listmods = {}


def list_classes(L):
    """module/group/object classes that keep nothing but the item list, so that
    parameter names may be symbolic (a dict would have to hash them).  Built on
    the library's own MutableMappingSequence ABC, as the parser requires."""
    if L.pkg in _listmods:
        return _listmods[L.pkg]
    MMS = L.collections.MutableMappingSequence

    class ListModule(MMS):
        def __init__(self, *args, **kw):
            self._items = []
            if args and args[0]:
                src = args[0]
                for k, v in (src.items() if hasattr(src, "items") else src):
                    self._items.append((k, v))
            for k, v in kw.items():
                self._items.append((k, v))

        def append(self, key, value):
            self._items.append((key, value))

        def _find(self, key):
            for i, (k, v) in enumerate(self._items):
                if Ctx.cur is not None:
                    if Ctx.cur.decide_b(str_eq(k, key)):
                        return i
                elif k == key:
                    return i
            return -1

        def __getitem__(self, key):
            if isinstance(key, (int, slice)):
                return self._items[key]
            i = self._find(key)
            if i < 0:
                raise KeyError(key)
            return self._items[i][1]

        def getall(self, key):
            return [v for k, v in self._items if (Ctx.cur.decide_b(str_eq(k, key)) if Ctx.cur else k == key)]

        def popall(self, key):
            r = self.getall(key)
            del self[key]
            return r

        def __setitem__(self, key, value):
            i = self._find(key)
            if i < 0:
                self._items.append((key, value))
            else:
                self._items[i] = (key, value)

        def __delitem__(self, key):
            self._items = [(k, v) for k, v in self._items
                           if not (Ctx.cur.decide_b(str_eq(k, key)) if Ctx.cur else k == key)]

        def __iter__(self):
            return iter(self._items)

        def __len__(self):
            return len(self._items)

        def items(self):
            return list(self._items)

        def keys(self):
            return [k for k, _ in self._items]

        def values(self):
            return [v for _, v in self._items]

        def insert(self, index, *a):
            self._items.insert(index, tuple(a) if len(a) == 2 else tuple(a[0]))

        def pop(self, *a):
            if not a:
                return self._items.pop()
            return self.popall(*a)

        def __eq__(self, o):
            raise Unsupported("== on ListModule (use veq)")

        __hash__ = None

    class ListGroup(ListModule):
        pass

    class ListObject(ListModule):
        pass

    _listmods[L.pkg] = (ListModule, ListGroup, ListObject)
    return _listmods[L.pkg]
