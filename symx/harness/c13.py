"""C13 - dumping is repeatable and does not damage its argument.

Module shapes with duplicate keys, groups/objects (incl. duplicate block names
and groups that are not valid PDS groups) and one symbolic string leaf: a
structural snapshot (classes, keys, values, order at every level) is taken,
the module is encoded, snapshotted again and encoded a second time.  The two
texts must be identical and the snapshots equal, except that a PVLGroup may
have become a PVLObject with identical content at the same position (PDS3's
documented in-place conversion).
"""
from ..core import B, zand
from .common import Harness, Outcome, run_property, str_eq, veq
from . import rt, c01


def snap_eq(a, b, allow_g2o):
    """snapshots equal; with allow_g2o a PVLGroup may have become a PVLObject"""
    if isinstance(a, tuple) and isinstance(b, tuple) and len(a) == 2 and isinstance(a[0], str) and isinstance(a[1], list) \
            and len(b) == 2 and isinstance(b[1], list):
        if a[0] != b[0] and not (allow_g2o and a[0] == "PVLGroup" and b[0] == "PVLObject"):
            return False
        if len(a[1]) != len(b[1]):
            return False
        return zand([zand([str_eq(k1, k2), snap_eq(v1, v2, allow_g2o)]) for (k1, v1), (k2, v2) in zip(a[1], b[1])])
    if hasattr(a, "_fields") or hasattr(b, "_fields"):
        return veq(a, b)              # Quantity (a named tuple): value and units
    if isinstance(a, list) and isinstance(b, list):
        if len(a) != len(b):
            return False
        return zand([snap_eq(x, y, allow_g2o) for x, y in zip(a, b)])
    if isinstance(a, (tuple, list)) or isinstance(b, (tuple, list)):
        return False
    return veq(a, b)


class Repeat(Harness):
    prop = "C13"
    functions = c01.FUNCS[:13] + ("pvl.encoder.PDSLabelEncoder.encode (group conversion)", "pvl.encoder.PDSLabelEncoder.count_aggs",
                                  "pvl.encoder.PDSLabelEncoder.is_PDSgroup", "pvl.dumps")
    stubs = c01.STUBS
    must_reach = ("encoded", "refused")

    @property
    def alphabet(self):
        return rt.ALPHA[self.dialect]

    @property
    def bounds(self):
        return "dialect %s, shape %s, one string leaf of length %d, configuration %s, entry %s" % (
            self.dialect, self.shape, self.n, self.cfg, self.entry)

    def inputs(self, ctx):
        return {"x": rt.leaf_inputs(ctx, "str", self.n, self.dialect)}

    def prop_fn(self, L, inp):
        x = inp["x"]
        m = rt.shape_module(L, self.shape, x)
        d, E, cfg = rt.make_encoder(L, self.dialect, self.cfg, inp)
        s0 = rt.snapshot(m)

        def dump():
            if self.entry == "dumps":
                return L.pvl.dumps(m, encoder=E)
            return E.encode(m)
        try:
            t1 = dump()
        except (ValueError, TypeError):
            s1 = rt.snapshot(m)
            # a refusal must not have damaged the argument either
            return Outcome("refused", snap_eq(s0, s1, self.dialect == "PDS3"), {"after": s1})
        s1 = rt.snapshot(m)
        try:
            t2 = dump()
        except (ValueError, TypeError):
            return Outcome("second-refused", False, {"first": t1})
        s2 = rt.snapshot(m)
        ok = zand([str_eq(t1, t2), snap_eq(s0, s1, self.dialect == "PDS3"), snap_eq(s1, s2, self.dialect == "PDS3")])
        return Outcome("encoded", ok, {"first": t1, "second": t2, "after": s2})


# strings the four dialects treat differently (bare in one, quoted in another, refused in a third)
WORDS = ("CTX+HiRISE", "a+b", "x#y", "N/A", "1:2", "a-b", "Null", "END_GROUPX", "12:00-05", "2#101#", "x y", "it's", 'say "hi"',
         "caf\u00e9", "a\tb", "infinity", "NaN", "-", "a&b", "<m>", "true", "1e5", "0x10", "a,b", "(x)", "{y}", "p=q", "semi;colon")


class Interleaved(Harness):
    """repeatability across encoders: dump with A, then with another dialect's encoder B, then with A again (the same
    instance and a fresh one) - the three A texts are identical; the value strings come from a pool of words the
    dialects treat differently (solver-chosen), scalar and inside a sequence and a group"""
    prop = "C13"
    alphabet = "latin"
    functions = ("pvl.encoder.*Encoder.encode", "pvl.encoder.*Encoder.needs_quotes", "pvl.encoder.PVLEncoder._decodes_to_itself")
    must_reach = ("encoded", "refused")

    @property
    def bounds(self):
        return "encoder %s, then %s, then %s again; value chosen by the solver out of %d words %s" % (
            self.a, self.b, self.a, len(WORDS), list(WORDS))

    def inputs(self, ctx):
        from .c10 import pick
        return {"w": pick(ctx, "w", 0, len(WORDS) - 1), "v": pick(ctx, "v", 0, len(WORDS) - 1)}

    def prop_fn(self, L, inp):
        from .common import dialect
        c = rt.C(L)
        w, v = WORDS[inp["w"]], WORDS[inp["v"]]
        m = c.M([("Instrument", w), ("g", c.G([("list", [w, 1, v]), ("other", v)]))])
        A, B = dialect(L, self.a)["encoder"](), dialect(L, self.b)["encoder"]()

        def enc(E):
            try:
                return ("ok", E.encode(m))
            except ValueError:
                return ("ValueError", None)
            except TypeError:
                return ("TypeError", None)
        s0 = rt.snapshot(m)
        r1 = enc(A)
        enc(B)
        r2 = enc(A)
        r3 = enc(dialect(L, self.a)["encoder"]())
        ok = r1 == r2 and r1 == r3 and snap_eq(s0, rt.snapshot(m), self.a == "PDS3" or self.b == "PDS3") is not False
        return Outcome("encoded" if r1[0] == "ok" else "refused", ok, {"first": r1[1], "again": r2[1], "fresh": r3[1]})


# two labels assembled from the SAME container objects (a shallow copy, labels built from common parts)
LAYOUTS = ("k,g", "o,g", "g,h", "k,g,o", "g", "o(g)", "h,o,g", "k,h")


class Shared(Harness):
    """repeatability across labels that share containers: ONE encoder instance dumps label A, then label B, then A
    again; A and B are solver-chosen layouts over the same group/object instances.  Every text equals what a fresh
    encoder writes for that label"""
    prop = "C13"
    alphabet = "ascii"
    functions = ("pvl.encoder.*Encoder.encode", "pvl.encoder.PDSLabelEncoder.encode (group conversion)",
                 "pvl.encoder.PDSLabelEncoder.encode_aggregation_block", "pvl.encoder.PDSLabelEncoder.is_PDSgroup")
    must_reach = ("encoded",)

    @property
    def bounds(self):
        return ("encoder %s (one instance), labels A, B, A where A and B are chosen by the solver out of the %d layouts %s over "
                "shared instances (k parameter, g and h groups, o object, o(g) the object holding g); one symbolic "
                "character in g" % (self.dialect, len(LAYOUTS), list(LAYOUTS)))

    def inputs(self, ctx):
        from .c10 import pick
        return {"a": pick(ctx, "a", 0, len(LAYOUTS) - 1), "b": pick(ctx, "b", 0, len(LAYOUTS) - 1),
                "x": rt.leaf_inputs(ctx, "str", 1, self.dialect)}

    def prop_fn(self, L, inp):
        from .common import dialect
        c = rt.C(L)
        g = c.G([("a", inp["x"]), ("n", 1)])
        h = c.G([("b", 2)])
        parts = {"k": ("k", 0), "g": ("g", g), "h": ("h", h), "o": ("o", c.O([("c", 3)])), "o(g)": ("o", c.O([("c", 3), ("g", g)]))}

        def label(i):
            return c.M([parts[p] for p in LAYOUTS[i].split(",")])
        mods = [label(inp["a"]), label(inp["b"])]
        mods.append(mods[0])
        E = dialect(L, self.dialect)["encoder"]()

        def enc(E, m):
            try:
                return ("ok", E.encode(m))
            except ValueError:
                return ("ValueError", None)
            except TypeError:
                return ("TypeError", None)
        snaps = [rt.snapshot(m) for m in mods]
        got = [enc(E, m) for m in mods]
        fresh = [enc(dialect(L, self.dialect)["encoder"](), m) for m in mods]
        conds = []
        for (t1, x1), (t2, x2) in zip(got, fresh):
            conds.append(t1 == t2 and (x1 is None or str_eq(x1, x2)))
        conds += [snap_eq(s, rt.snapshot(m), self.dialect == "PDS3") is not False for s, m in zip(snaps, mods)]
        return Outcome("encoded", zand(conds), {"one_instance": [x for _, x in got], "fresh_instances": [x for _, x in fresh]})


def obligations(tier):
    obs = []
    nmax = 1 if tier == "quick" else 2
    for dia in ("PVL", "ODL", "PDS3", "ISIS"):
        for shape in rt.SHAPES:
            if shape in ("wrapunits", "quantbad"):
                continue              # its leaf is an integer
            for n in range(0, nmax + 1):
                obs.append(Repeat(dialect=dia, shape=shape, n=n, cfg="default", entry="encode"))
            obs.append(Repeat(dialect=dia, shape=shape, n=1, cfg="default", entry="dumps"))
        for cfg in ("narrow", "noaggend", "noconvert", "notab"):
            if rt.config(dia, cfg) is None:
                continue
            for shape in ("grouponly", "badgroup", "dupgroup", "nested", "wrapseq"):
                obs.append(Repeat(dialect=dia, shape=shape, n=1, cfg=cfg, entry="encode"))
    for a in ("PVL", "ODL", "PDS3", "ISIS"):
        for b in ("PVL", "ODL", "PDS3", "ISIS"):
            if a != b:
                obs.append(Interleaved(a=a, b=b))
    for dia in ("PVL", "ODL", "PDS3", "ISIS"):
        obs.append(Shared(dialect=dia))
    return obs


def main(tier="quick", seed=0, jobs=16, only=None, time_scale=1.0):
    obs = obligations(tier)
    if only:
        obs = [o for o in obs if only in o.name]
    return run_property("C13", obs, tier, seed, jobs=jobs, time_scale=time_scale)
