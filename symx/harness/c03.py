"""C03 - well-formed text decodes to the values the dialect grammar assigns.

An abstract statement plus a *spelling template* with symbolic parts; the
expected tree is computed by the harness from the abstract value by the
specification's definition (positional value of based integers, the text of a
real, the content of a quoted string, ...), never by the encoder.  Forms:
based integers (radix, sign position, symbolic digits), decimal integers and
reals (symbolic digits, fraction, exponent), quoted strings (either quote,
symbolic content), unquoted strings, sequences/sets with a symbolic leaf, units,
block statements whose keyword letter case is symbolic in every letter, optional
delimiters and block names.  The characters around the value are symbolic
members of the separator sets so that the lexer's look-ahead rules are
exercised in context.
"""
from ..core import SymStr, SymInt, B, I, zand, zor, znot, mkint, Ctx
from .common import Harness, Outcome, dialect, run_property, int_eq, str_eq, veq, kind
from .c17 import fold_sym

try:
    import z3
    from .. import cmodels as cm
except Exception:      # pragma: no cover
    z3 = cm = None

LOADERS = ("PVL", "ODL", "PDS3", "ISIS", "Omni")
FUNCS = ("pvl.lexer.lexer", "pvl.lexer.lex_char", "pvl.lexer.lex_continue", "pvl.lexer.lex_comment",
         "pvl.parser.*Parser.parse_module/parse_aggregation_block/parse_assignment_statement/parse_value/"
         "_parse_set_seq/parse_units/parse_end_aggregation", "pvl.decoder.*Decoder.decode_simple_value/"
         "decode_non_decimal/decode_decimal/decode_quoted_string/decode_unquoted_string", "pvl.token.Token.is_*")


def load(L, name, text):
    if name == "Omni":
        return L.pvl.loads(text)
    return L.pvl.loads(text, parser=dialect(L, name)["parser"])


def digit_char(ctx, hint, radix):
    rs = [(48, 48 + min(radix, 10) - 1)]
    if radix > 10:
        rs += [(65, 65 + radix - 11), (97, 97 + radix - 11)]
    return ctx.fresh_char(hint, tuple(rs))


def digit_val(c):
    """value of a (possibly symbolic) digit character of radix <= 16"""
    if isinstance(c, str):
        return int(c, 16)
    z = c.z
    return mkint(z3.If(z <= 57, z - 48, z3.If(z <= 70, z - 55, z - 87)))


def elems(s):
    return list(s) if isinstance(s, str) else list(SymStr.of(s).cs)


class Form(Harness):
    prop = "C03"
    alphabet = "ascii"
    functions = FUNCS
    must_reach = ("value",)
    CONTEXTS = {
        "plain": ("a = ", "\nEND\n", lambda v: [("a", v)]),
        "semi": ("a = ", ";b = 2;END;", lambda v: [("a", v), ("b", 2)]),
        "tight": ("a=", "\nb=2\n", lambda v: [("a", v), ("b", 2)]),
        "comment": ("a = /* c */", "/* d */\nEND\n", lambda v: [("a", v)]),
        "seq": ("a = (1, ", ", 3)\nEND\n", lambda v: [("a", [1, v, 3])]),
        "seqtight": ("a = (", ")\nEND\n", lambda v: [("a", [v])]),
        "set": ("a = {", "}\n", lambda v: [("a", ("set", [v]))]),
        "nested": ("a = ((", "), (2))\nEND\n", lambda v: [("a", [[v], [2]])]),
        "ingroup": ("GROUP = g\n a = ", "\nEND_GROUP\nEND\n", lambda v: [("g", ("group", [("a", v)]))]),
        # deeper nesting (PVL family only: ODL limits sequences to two dimensions and keeps objects out of groups)
        "deep": ("a = (1, (((", "), 5), {2}), 4)\nEND\n", lambda v: [("a", [1, [[[v], 5], ("set", [2])], 4])]),
        "deepblock": ("OBJECT = o\n GROUP = g\n  OBJECT = p\n   a = ", "\n  END_OBJECT\n  b = 1\n END_GROUP = g\nEND_OBJECT\nEND\n",
                      lambda v: [("o", ("object", [("g", ("group", [("p", ("object", [("a", v)])), ("b", 1)]))]))]),
    }
    DEEP = ("deep", "deepblock")
    # comments and line breaks directly after an element of a sequence / set (also after its units expression)
    CONTEXTS.update({
        "seqcmt": ("a = (", " /* c */, 2 /* d */)\nEND\n", lambda v: [("a", [v, 2])]),
        "seqlast": ("a = (1,\n ", " /* last */\n)\nb = 2\nEND\n", lambda v: [("a", [1, v]), ("b", 2)]),
        "setcmt": ("a = {", " /* only */}\nEND\n", lambda v: [("a", ("set", [v]))]),
    })
    ELEM = ("seqcmt", "seqlast", "setcmt")

    @property
    def bounds(self):
        return "loader %s, form %s, context %s" % (self.dialect, self.describe(), self.ctx)

    def wrap(self, lexeme, value):
        pre, post, exp = self.CONTEXTS[self.ctx]
        return pre + lexeme + post, exp(value)

    def prop_fn(self, L, inp):
        lexeme, value = self.spell(L, inp)
        text, exp = self.wrap(lexeme, value)
        try:
            m = load(L, self.dialect, text)
        except L.exceptions.LexerError:
            return Outcome("LexerError", False, {"text": text})
        except L.exceptions.ParseError:
            return Outcome("ParseError", False, {"text": text})
        return Outcome("value", match_items(L, m, exp, self.dialect), {"text": text, "module": snap(m)})


def snap(m):
    if hasattr(m, "items"):
        return [type(m).__name__] + [(k, snap(v)) for k, v in m.items()]
    if isinstance(m, list):
        return [snap(x) for x in m]
    return m


def match_items(L, m, exp, dia):
    got = list(m.items())
    if len(got) != len(exp):
        return False
    return zand([zand([str_eq(k, ek), match_value(L, v, ev, dia)]) for (k, v), (ek, ev) in zip(got, exp)])


def match_value(L, v, ev, dia):
    if isinstance(ev, tuple) and ev and ev[0] in ("group", "object"):
        want = "PVLGroup" if ev[0] == "group" else "PVLObject"
        if type(v).__name__ != want:
            return False
        return match_items(L, v, ev[1], dia)
    if isinstance(ev, tuple) and ev and ev[0] == "set":
        if kind(v) != "set":
            return False
        lv = list(v)
        if len(lv) != len(ev[1]):
            return False
        return zand([zor([match_value(L, x, e, dia) for x in lv]) for e in ev[1]])
    if isinstance(ev, tuple) and ev and ev[0] == "quantity":
        if kind(v) != "quantity":
            return False
        return zand([match_value(L, v.value, ev[1], dia), str_eq(v.units, ev[2])])
    if isinstance(ev, list):
        if kind(v) != "list" or len(v) != len(ev):
            return False
        return zand([match_value(L, x, e, dia) for x, e in zip(v, ev)])
    return veq(v, ev)


class Based(Form):
    """[sign] radix # [sign] digits #  - sign position per dialect"""

    def describe(self):
        return "based integer radix %d, %d digit(s), sign %r at position %s" % (self.radix, self.nd, self.sign, self.pos)

    def inputs(self, ctx):
        return {"digits": SymStr([digit_char(ctx, "d%d" % i, self.radix) for i in range(self.nd)])}

    def spell(self, L, inp):
        ds = elems(inp["digits"])
        val = 0
        for c in ds:
            val = val * self.radix + digit_val(c)
        if self.sign == "-":
            val = -val
        digits = inp["digits"]
        if self.pos == "before":
            lex = self.sign + str(self.radix) + "#" + digits + "#"
        else:
            lex = str(self.radix) + "#" + self.sign + digits + "#"
        return lex, val


class Decimal(Form):
    """shape over: s = sign, d = symbolic digit, other characters literal"""

    def describe(self):
        return "decimal number of shape %r" % self.shape

    def inputs(self, ctx):
        cs = []
        for i, ch in enumerate(self.shape):
            if ch == "d":
                cs.append(ctx.fresh_char("d%d" % i, ((48, 57),)))
            elif ch == "s":
                cs.append(ctx.fresh_char("s%d" % i, ((43, 43), (45, 45))))
            else:
                cs.append(ch)
        return {"lexeme": SymStr(cs)}

    def spell(self, L, inp):
        lex = inp["lexeme"]
        isint = not any(ch in self.shape for ch in ".eE")
        if isint:
            es = elems(lex)
            neg = False
            if self.shape[0] == "s":
                neg = (es[0] == "-") if isinstance(es[0], str) else None
                sgn = es[0]
                es = es[1:]
            val = 0
            for c in es:
                val = val * 10 + digit_val(c)
            if self.shape[0] == "s":
                if neg is None:
                    val = mkint(z3.If(sgn.z == 45, -I(val), I(val)))
                elif neg:
                    val = -val
            return lex, val
        if isinstance(lex, str):
            return lex, float(lex)
        return lex, cm.SymFloat(SymStr(SymStr.of(lex).cs))


class Quoted(Form):
    def describe(self):
        if getattr(self, "shape", None):
            return "quoted string, quote %r, content %r with W = every white-space character, ? = every character" % (
                self.q, self.shape)
        return "quoted string, quote %r, %d symbolic character(s)" % (self.q, self.n)

    @property
    def alphabet(self):
        return {"PVL": "latin", "ISIS": "latin", "ODL": "ascii", "PDS3": "ascii", "Omni": "omni"}[self.dialect]

    def inputs(self, ctx):
        shape = getattr(self, "shape", None)
        if shape:
            # W = any of the six white-space characters, ? = any character, the rest literal
            cs = []
            for i, ch in enumerate(shape):
                if ch == "W":
                    cs.append(ctx.fresh_char("w%d" % i, ((9, 13), (32, 32))))
                elif ch == "?":
                    c = ctx.fresh_char("c%d" % i)
                    ctx.assume(c.z != ord(self.q))
                    if self.dialect in ("PVL", "ISIS"):
                        from .c15 import spec_allowed
                        a = spec_allowed("PVL", c.z)
                        if not isinstance(a, bool):
                            ctx.assume(a)
                    cs.append(c)
                else:
                    cs.append(ch)
            return {"content": SymStr(cs)}
        s = ctx.fresh_str(self.n, "c")
        for c in s.cs:
            ctx.assume(c.z != ord(self.q))
        if self.dialect in ("PVL", "ISIS"):
            from .c15 import spec_allowed
            for c in s.cs:
                ctx.assume(spec_allowed("PVL", c.z) if not isinstance(spec_allowed("PVL", c.z), bool) else True)
        return {"content": s}

    def spell(self, L, inp):
        c = inp["content"]
        exp = c
        if self.dialect in ("ODL", "PDS3", "Omni"):
            exp = fold_sym(L, c)
            if self.dialect == "Omni":
                from .rt import omni_dash
                exp = fold_sym(L, omni_dash(c))
        return self.q + c + self.q, exp


class Unquoted(Form):
    def describe(self):
        return "unquoted string of %d identifier character(s)" % self.n

    def inputs(self, ctx):
        first = ctx.fresh_char("u0", ((65, 90), (97, 122)))
        rest = [ctx.fresh_char("u%d" % i, ((48, 57), (65, 90), (95, 95), (97, 122))) for i in range(1, self.n)]
        if rest:
            ctx.assume(rest[-1].z != 95)
        s = SymStr([first] + rest)
        # not a keyword of any dialect, not text that Python reads as a number
        for w in ("end", "null", "true", "false", "inf", "nan", "group", "object"):
            if len(w) == self.n:
                ctx.assume(z3.Not(z3.And([z3.Or(c.z == ord(ch), c.z == ord(ch.upper())) for c, ch in zip(s.cs, w)])))
        return {"s": s}

    def spell(self, L, inp):
        return inp["s"], inp["s"]


class Units(Form):
    def describe(self):
        return "units expression after %s, %d symbolic unit character(s), space=%r%s" % (
            self.after, self.n, self.sp, ", a symbolic white-space character after '<' and before '>'" if getattr(self, "pad", False) else "")

    def inputs(self, ctx):
        u = SymStr([ctx.fresh_char("u%d" % i, ((42, 42), (47, 47), (48, 57), (65, 90), (97, 122))) for i in range(self.n)])
        inp = {"u": u, "d": SymStr([ctx.fresh_char("d", ((48, 57),))])}
        if getattr(self, "pad", False):
            # white space (any of the six characters, line ends included) between the delimiters and the units value:
            # not part of the units string
            inp["p1"] = SymStr([ctx.fresh_char("p1", ((9, 13), (32, 32)))])
            inp["p2"] = SymStr([ctx.fresh_char("p2", ((9, 13), (32, 32)))])
        return inp

    def spell(self, L, inp):
        d = inp["d"]
        dv = digit_val(elems(d)[0])
        if self.after == "int":
            lex, val = d, dv
        elif self.after == "real":
            lex = d + ".5"
            val = float(lex) if isinstance(lex, str) else cm.SymFloat(SymStr(SymStr.of(lex).cs))
        else:
            lex, val = "(" + d + ", 2)", [dv, 2]
        if getattr(self, "pad", False):
            return lex + self.sp + "<" + inp["p1"] + inp["u"] + inp["p2"] + ">", ("quantity", val, inp["u"])
        return lex + self.sp + "<" + inp["u"] + ">", ("quantity", val, inp["u"])


KW = {"group": ("GROUP", "END_GROUP"), "object": ("OBJECT", "END_OBJECT"), "begin_group": ("BEGIN_GROUP", "END_GROUP"),
      "begin_object": ("BEGIN_OBJECT", "END_OBJECT")}


class Blocks(Harness):
    """block statements: every letter of both keywords in either case, optional ';', optional name on the end"""
    prop = "C03"
    alphabet = "ascii"
    functions = FUNCS
    must_reach = ("value",)

    @property
    def bounds(self):
        return "loader %s, block %s with every letter-case spelling of both keywords, delim=%r, endname=%r, nested=%r" % (
            self.dialect, self.block, self.delim, self.endname, self.nested)

    def inputs(self, ctx):
        def cased(word, h):
            return SymStr([ctx.fresh_char("%s%d" % (h, i), ((ord(ch), ord(ch)), (ord(ch.lower()), ord(ch.lower()))))
                           if ch.isalpha() else ch for i, ch in enumerate(word)])
        b, e = KW[self.block]
        return {"begin": cased(b, "b"), "end": cased(e, "e")}

    def prop_fn(self, L, inp):
        d = ";" if self.delim else ""
        inner = " x = 1" + d + "\n"
        exp_inner = [("x", 1)]
        if self.nested:
            inner += " OBJECT = o" + d + "\n  y = 2" + d + "\n END_OBJECT" + d + "\n x = 3" + d + "\n"
            exp_inner += [("o", ("object", [("y", 2)])), ("x", 3)]
        text = inp["begin"] + " = g" + d + "\n" + inner + inp["end"] + (" = g" if self.endname else "") + d + "\nz = 9" + d + "\nEND" + d + "\n"
        exp = [("g", ("group" if "group" in self.block else "object", exp_inner)), ("z", 9)]
        try:
            m = load(L, self.dialect, text)
        except L.exceptions.LexerError:
            return Outcome("LexerError", False, {"text": text})
        except L.exceptions.ParseError:
            return Outcome("ParseError", False, {"text": text})
        return Outcome("value", match_items(L, m, exp, self.dialect), {"text": text, "module": snap(m)})


def obligations(tier):
    obs = []
    quick = tier == "quick"
    for d in LOADERS:
        ctxs = [c for c in Form.CONTEXTS if (c not in Form.DEEP or d in ("PVL", "ISIS", "Omni")) and c not in Form.ELEM]
        deep = [c for c in Form.DEEP if d in ("PVL", "ISIS", "Omni")]
        # based integers
        if d in ("PVL", "ISIS"):
            combos = [(r, "before") for r in (2, 8, 16)]
        elif d in ("ODL", "PDS3"):
            combos = [(r, "after") for r in ((2, 3, 8, 10, 16) if quick else range(2, 17))]
        else:
            combos = [(r, p) for r in ((2, 7, 16) if quick else range(2, 17)) for p in ("before", "after")]
        for r, pos in combos:
            for sign in ("", "+", "-"):
                for nd in ((1, 3) if quick else (1, 2, 3, 5)):
                    for c in ((["plain", "seq", "tight"] + (deep if nd == 1 else [])) if quick else ctxs):
                        obs.append(Based(dialect=d, radix=r, pos=pos, sign=sign, nd=nd, ctx=c))
        shapes = ["d", "sd", "ddd", "sd.d", "d.", ".d", "s.d", "sd.dEsd", "dEd", "sd.de-d", "d.Esd", "sd.e+d", ".dEsd"] + (
            [] if quick else ["dddddd", "s.dd", "d.dddE+dd", "sdd.E-dd"])
        for sh in shapes:
            for c in ((["plain", "seq", "semi", "set"] + (deep if sh in ("sd.d", "dEd") else [])) if quick else ctxs):
                obs.append(Decimal(dialect=d, shape=sh, ctx=c))
        for q in ('"', "'"):
            for n in ((0, 1, 2) if quick else (0, 1, 2, 3)):
                for c in ((["plain", "seq", "comment"] + (deep if n == 1 else [])) if quick else ctxs):
                    obs.append(Quoted(dialect=d, q=q, n=n, ctx=c))
        # folding and dash continuation inside quoted text (lines ending in LF, CR-LF, with indentation)
        for sh in ("a-WWb", "aW-Wb", "a WW b", "a-W-Wb") + (() if quick else ("a-WWWb", "aWW-WWb", "-WWb", "a-WW", "a?WW?")):
            for c in (("plain", "seq") if quick else ("plain", "seq", "ingroup")):
                obs.append(Quoted(dialect=d, q='"', n=0, ctx=c, shape=sh))
        for n in ((1, 3) if quick else (1, 2, 3, 4)):
            for c in ((["plain", "seq", "tight", "ingroup"] + deep) if quick else ctxs):
                obs.append(Unquoted(dialect=d, n=n, ctx=c))
        for after in ("int", "real") + (("seq",) if d in ("PVL", "ISIS", "Omni") else ()):
            for sp in ("", " "):
                for n in (1, 2):
                    for c in ("plain", "semi", "seq" if after != "seq" else "plain"):
                        obs.append(Units(dialect=d, after=after, sp=sp, n=n, ctx=c))
            for c in ("plain", "seq" if after != "seq" else "plain"):
                obs.append(Units(dialect=d, after=after, sp=" ", n=2, ctx=c, pad=True))
            for c in Form.ELEM:
                if after == "seq" and c == "setcmt":
                    continue          # a sequence (with or without units) cannot be a member of a Python set
                obs.append(Units(dialect=d, after=after, sp=" ", n=1, ctx=c))
        for c in Form.ELEM:
            obs.append(Decimal(dialect=d, shape="sd.d", ctx=c))
            obs.append(Quoted(dialect=d, q='"', n=1, ctx=c))
            obs.append(Unquoted(dialect=d, n=2, ctx=c))
        kws = ("group", "object") + (("begin_group", "begin_object") if d not in ("ISIS",) else ())
        for kw in kws:
            for delim in (False, True):
                for endname in (False, True):
                    obs.append(Blocks(dialect=d, block=kw, delim=delim, endname=endname, nested=not delim))
    # drop duplicates (Units 'seq' context substitution)
    seen, out = set(), []
    for o in obs:
        if o.name not in seen:
            seen.add(o.name)
            out.append(o)
    return out


def main(tier="quick", seed=0, jobs=16, only=None, time_scale=1.0):
    obs = obligations(tier)
    if only:
        obs = [o for o in obs if only in o.name]
    return run_property("C03", obs, tier, seed, jobs=jobs, time_scale=time_scale)
