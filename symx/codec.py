"""symx.codec - JSON encoding of harness inputs/outcomes (replay files, evidence).

Values: None, bool, int, str, list, dict(str->value) as themselves; everything
else as a single-key tagged dict.  No z3, no pvl imports at module level, so
the replay process can use it without the engine.
"""
import datetime as _dt
import json


def enc(v):
    if v is None or isinstance(v, (bool, int)):
        return v
    if isinstance(v, str):
        if type(v) is not str:
            lineno = getattr(v, "lineno", None)
            if lineno is not None:
                return {"$empty": enc(lineno)}
            return str(v)
        return v
    if isinstance(v, float):
        return {"$float": repr(v)}
    if isinstance(v, _dt.datetime):
        return {"$datetime": [v.year, v.month, v.day, v.hour, v.minute, v.second, v.microsecond, _tz(v.tzinfo)]}
    if isinstance(v, _dt.date):
        return {"$date": [v.year, v.month, v.day]}
    if isinstance(v, _dt.time):
        return {"$time": [v.hour, v.minute, v.second, v.microsecond, _tz(v.tzinfo)]}
    if isinstance(v, _dt.timedelta):
        return {"$timedelta": v.total_seconds()}
    if isinstance(v, bytes):
        return {"$bytes": list(v)}
    if isinstance(v, tuple) and hasattr(v, "_fields"):
        return {"$" + type(v).__name__: [enc(x) for x in v]}
    if isinstance(v, (list, tuple)):
        return [enc(x) for x in v]
    if isinstance(v, (set, frozenset)):
        return {"$frozenset" if isinstance(v, frozenset) else "$set": sorted((enc(x) for x in v), key=json.dumps)}
    if isinstance(v, dict) and not hasattr(v, "getall") and not hasattr(v, "getlist"):
        return {"$dict": [[enc(k), enc(x)] for k, x in v.items()]}
    if hasattr(v, "items"):
        return {"$" + type(v).__name__: [[enc(k), enc(x)] for k, x in v.items()]}
    if isinstance(v, BaseException):
        return {"$exc": type(v).__name__}
    return {"$repr": repr(v)[:200]}


def _tz(tz):
    if tz is None:
        return None
    off = tz.utcoffset(None)
    return off.total_seconds() / 60.0


def dec(v, L=None):
    """inverse of enc; container classes are taken from L.collections when given"""
    if v is None or isinstance(v, (bool, int, str)):
        return v
    if isinstance(v, list):
        return [dec(x, L) for x in v]
    if isinstance(v, dict):
        (k, x), = v.items()
        if k == "$float":
            return float(x)
        if k == "$datetime":
            return _dt.datetime(*x[:7], tzinfo=_untz(x[7]))
        if k == "$date":
            return _dt.date(*x)
        if k == "$time":
            return _dt.time(*x[:4], tzinfo=_untz(x[4]))
        if k == "$timedelta":
            return _dt.timedelta(seconds=x)
        if k == "$bytes":
            return bytes(x)
        if k == "$set":
            return set(dec(y, L) for y in x)
        if k == "$frozenset":
            return frozenset(dec(y, L) for y in x)
        if k == "$dict":
            return {dec(a, L): dec(b, L) for a, b in x}
        if k == "$empty":
            return L.parser.EmptyValueAtLine(dec(x, L))
        if k == "$Quantity":
            return L.collections.Quantity(*[dec(y, L) for y in x])
        if k in ("$PVLModule", "$PVLGroup", "$PVLObject", "$OrderedMultiDict", "$PVLModuleNew", "$PVLGroupNew",
                 "$PVLObjectNew"):
            cls = getattr(L.collections, k[1:])
            return cls([(dec(a, L), dec(b, L)) for a, b in x])
        raise ValueError("cannot decode %r" % k)
    raise ValueError("cannot decode %r" % (v,))


def _untz(m):
    if m is None:
        return None
    if m == 0:
        return _dt.timezone.utc
    return _dt.timezone(_dt.timedelta(minutes=m))


def dumps(v):
    return json.dumps(enc(v), sort_keys=True, ensure_ascii=True)
