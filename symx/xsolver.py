"""symx.xsolver - re-decide a seeded sample of the path queries with two other solvers.

Every obligation keeps a reservoir sample of the satisfiability queries z3 5.x answered during exploration,
as SMT-LIB2 text; the sample is re-decided by cvc5 (Python wheel, input parser) and by the system z3 4.8.12
binary.  A sat/unsat disagreement is a machinery failure (exit 3), not a verdict; an '(error' line or a
parse error (z3 prints e.g. a unary '(+ x)' that cvc5 rejects) counts as inconclusive for that solver.
"""
import os
import subprocess
import tempfile


def cvc5_decide(text, timeout_ms=20000):
    import cvc5
    s = cvc5.Solver()
    s.setOption("tlimit-per", str(timeout_ms))
    s.setLogic("ALL")
    p = cvc5.InputParser(s)
    sm = p.getSymbolManager()
    p.setStringInput(cvc5.InputLanguage.SMT_LIB_2_6, text, "q")
    out = []
    while True:
        cmd = p.nextCommand()
        if cmd.isNull():
            break
        r = cmd.invoke(s, sm)
        if r:
            out.append(str(r).strip())
    for line in out:
        if line in ("sat", "unsat", "unknown"):
            return line
    return "error: " + " ".join(out)[:200]


def z3old_decide(text, timeout_s=20):
    exe = "/usr/bin/z3"
    if not os.path.exists(exe):
        return "absent"
    try:
        p = subprocess.run([exe, "-in", "-T:%d" % timeout_s], input=text, capture_output=True, text=True,
                           timeout=timeout_s + 5)
    except subprocess.TimeoutExpired:
        return "unknown"
    out = p.stdout.strip().splitlines()
    if any(l.startswith("(error") for l in out):
        return "error: " + " ".join(out)[:200]
    for l in out:
        if l in ("sat", "unsat", "unknown", "timeout"):
            return "unknown" if l == "timeout" else l
    return "error: " + " ".join(out)[:200]


def recheck(samples):
    """samples: list of (smt2 text, 'sat'|'unsat') -> dict of counts and list of disagreements"""
    res = dict(queries=len(samples), cvc5_agree=0, cvc5_unknown=0, z3_4_8_agree=0, z3_4_8_unknown=0, disagreements=[])
    for text, want in samples:
        body = text
        if "(check-sat)" not in body:
            body = body + "\n(check-sat)\n"
        try:
            a = cvc5_decide(body)
        except ImportError:
            a = "absent"
        except Exception as e:      # noqa
            a = "error: %s" % e
        b = z3old_decide(body)
        for name, got in (("cvc5", a), ("z3_4_8", b)):
            if got == want:
                res[name + "_agree"] += 1
            elif got in ("unknown", "absent") or got.startswith("error"):
                # an '(error' / parse error (z3 prints e.g. a unary (+ x) that cvc5 rejects) is inconclusive
                res[name + "_unknown"] += 1
            else:
                res["disagreements"].append(dict(solver=name, z3_5=want, other=got, query=body[:1500]))
    return res
