"""symx - a purpose-built symbolic executor for planetarypy/pvl.

pvl's own modules are loaded from /repo's working tree through an in-memory AST
instrumenter (symx.load); strings are fixed-length vectors of z3 integer terms
behind a str-like proxy (symx.core); every truth test on a symbolic value asks
z3 which branches are feasible and the run is re-executed depth-first over
decision prefixes.  See /verif/DESIGN.md section 2.
"""
