#!/bin/sh
# Build the overlay virtualenv the checks run in (offline, from the wheelhouse).
# /venv (the repository's environment) is left untouched: the overlay sees its
# site-packages through a .pth file and adds z3-solver, crosshair-tool, cvc5.
set -e
cd "$(dirname "$0")"
if [ ! -x .venv/bin/python ] || ! .venv/bin/python -c 'import z3, crosshair, cvc5' >/dev/null 2>&1; then
  rm -rf .venv
  /venv/bin/python -m venv .venv
  SP=$(.venv/bin/python -c 'import sysconfig; print(sysconfig.get_paths()["purelib"])')
  echo "import site; site.addsitedir('/venv/lib/python3.12/site-packages')" > "$SP/_overlay.pth"
  PIP_NO_INDEX=1 .venv/bin/python -m pip install -q --no-index --find-links /opt/veriftools/wheels \
      z3-solver crosshair-tool cvc5 >/dev/null
  .venv/bin/python -c 'import z3, crosshair, cvc5, pvl'
fi
echo "verif venv ready: $(.venv/bin/python -c 'import z3; print("z3", z3.get_version_string())')"
