#!/usr/bin/env python3
"""Entry point of every check:  run.py <property id> [--tier quick|thorough] [--jobs N]

exit 0  the property held on everything explored (known findings are listed as KNOWN-FINDING lines)
exit 1  a violation was found, replayed against the un-instrumented library and printed as
        VIOLATION property=<id> replay=<path>
exit 3  the machinery itself failed (model mismatch, non-reproducing counterexample ...): not a verdict
"""
import os
import sys

VERIF = os.path.dirname(os.path.abspath(__file__))
PY = os.path.join(VERIF, ".venv", "bin", "python")


def bootstrap():
    """always re-exec once under the overlay venv with a fixed hash seed (re-execution of
    paths must be deterministic across worker processes)"""
    if os.environ.get("_SYMX_REEXEC") == "1":
        return
    if not os.path.exists(PY) or os.system("%s -c 'import z3, crosshair' >/dev/null 2>&1" % PY) != 0:
        if os.system("sh %s/setup.sh >&2" % VERIF) != 0:
            print("setup failed", file=sys.stderr)
            sys.exit(3)
    env = dict(os.environ, PYTHONHASHSEED="0", PYTHONDONTWRITEBYTECODE="1", _SYMX_REEXEC="1")
    os.execve(PY, [PY, os.path.abspath(__file__)] + sys.argv[1:], env)


def main():
    bootstrap()
    sys.path.insert(0, VERIF)
    import argparse
    import importlib
    import warnings
    warnings.simplefilter("ignore")
    ap = argparse.ArgumentParser()
    ap.add_argument("prop")
    ap.add_argument("--tier", default=os.environ.get("VERIF_TIER", "quick"))
    ap.add_argument("--jobs", type=int, default=int(os.environ.get("VERIF_JOBS", "16")))
    ap.add_argument("--only", default=None, help="substring filter on obligation names (development aid)")
    ap.add_argument("--time-scale", type=float, default=None,
                    help="factor on every obligation's time budget (default 1 quick, 4 thorough; env VERIF_TIME_SCALE)")
    a = ap.parse_args()
    tier = a.tier if a.tier in ("quick", "thorough") else "quick"
    try:
        seed = int(os.environ.get("VERIF_SEED", "0"))
    except ValueError:
        seed = 0
    os.chdir(VERIF)
    mod = importlib.import_module("symx.harness." + a.prop.lower())
    ts = a.time_scale if a.time_scale is not None else float(os.environ.get("VERIF_TIME_SCALE", "1" if tier == "quick" else "4"))
    sys.exit(mod.main(tier=tier, seed=seed, jobs=a.jobs, only=a.only, time_scale=ts))


if __name__ == "__main__":
    main()
