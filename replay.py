#!/usr/bin/env python3
"""Replay one counterexample against the un-instrumented library.

usage: /verif/.venv/bin/python /verif/replay.py <replay file>
exit 1 = the property is violated on this input (printed), exit 0 = it holds, 2 = replay itself failed.
No import hook and no shim is installed here: ``import pvl`` is /repo's package as any user gets it.
"""
import json
import os
import sys
import warnings

VERIF = os.path.dirname(os.path.abspath(__file__))


def main():
    warnings.simplefilter("ignore")
    sys.path.insert(0, VERIF)
    repo = os.environ.get("PVL_REPO", "/repo")
    sys.path.insert(0, repo)
    sys.dont_write_bytecode = True
    body = json.load(open(sys.argv[1]))
    from symx import framework, codec
    H = framework.make(tuple(body["harness"]))
    L = framework.Lib("pvl")
    assert os.path.realpath(L.pvl.__file__).startswith(os.path.realpath(repo)), L.pvl.__file__
    inp = codec.dec(body["inputs"], L)
    try:
        o = H.prop_fn(L, inp)
        tag, ok, detail = o.tag, bool(o.ok), codec.enc(o.detail)
    except Exception as e:   # noqa
        tag, ok, detail = "unexpected:" + type(e).__name__, False, {"exception": repr(e)[:300]}
    print("property=%s obligation=%s outcome=%s holds=%s" % (body["property"], H.name, tag, ok))
    print("inputs=%s" % json.dumps(body["inputs"], sort_keys=True)[:1500])
    print("detail=%s" % json.dumps(detail, sort_keys=True)[:1500])
    sys.exit(0 if ok else 1)


if __name__ == "__main__":
    try:
        main()
    except SystemExit:
        raise
    except BaseException as e:   # noqa
        import traceback
        traceback.print_exc()
        sys.exit(2)
