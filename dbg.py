#!/verif/.venv/bin/python
"""development aid: run obligations of a property in-process and print details
usage: PYTHONHASHSEED=0 dbg.py C15 <name-substring> [tier]"""
import sys, os, warnings, json, traceback, time, itertools
sys.path.insert(0, '/verif'); warnings.simplefilter('ignore')
import importlib
from symx import framework
prop, sub = sys.argv[1], sys.argv[2]
tier = sys.argv[3] if len(sys.argv) > 3 else 'quick'
mod = importlib.import_module('symx.harness.' + prop.lower())
obs = [o for o in mod.obligations(tier) if sub in o.name]
for H in obs[:int(os.environ.get('N', '3'))]:
    pf = H.prop_fn
    def wrapped(L, inp, pf=pf):
        try:
            return pf(L, inp)
        except Exception:
            if os.environ.get('TB', '1') == '1':
                traceback.print_exc(limit=int(os.environ.get('TBN', '14')))
            raise
    H.prop_fn = wrapped
    for shard in itertools.product((0, 1), repeat=H.shard_bits):
        t = time.time()
        r = framework._run_task(H, shard, {})
        print('==', H.name, shard, round(time.time() - t, 2), 's')
        print('  stats', r['stats'])
        print('  tags', r['tags'], 'reached', r['reached'], 'xchk', r['crosschecked'])
        if r['inconclusive']: print('  INCONCLUSIVE', r['inconclusive'])
        for v in r['violations'][:4]: print('  VIOL', json.dumps(v)[:600])
        for v in r['mismatches'][:4]: print('  MISMATCH', json.dumps(v)[:900])

from symx import core
if core._DEBUG_FORKS:
    for k, v in sorted(core._DEBUG_FORKS.items(), key=lambda kv: -kv[1])[:25]:
        print('%6d  %s' % (v, k))
